"""Static analysis machinery for the orquesta properties (see /verif/DESIGN.md).

Nothing in this package imports or executes repository code: every fact is read off the
parsed source of /repo (stdlib ``ast`` only).
"""

"""E2/E4/E5 - access-path abstract interpretation of the engine.

One inter-procedural, context-sensitive (memoised on abstract arguments) may-analysis over the
repository's functions.  An abstract value is a set of tags:

  ('P', path)   reference to persistent conductor state; path is rooted at 'WS' (WorkflowState)
                or 'WC' (WorkflowConductor), e.g. ('WS','staged','*','ctxs','in')
  ('F', site)   object freshly allocated at an allocation site (display, comprehension, list(),
                ...); its fields live in a global, weakly updated heap
  ('D', site)   result of a deep copy: owns everything reachable from it
  ('S',)        scalar / immutable
  ('O', label)  opaque object (entry-point argument, result of foreign code, user data)
  ('K', kind)   repository object that is not engine state (GRAPH, spec classes, events)
  ('C', q) / ('M', name) / ('FN', q, selfav) / ('LAM', id)   class, module, function values

Products: persistent write effects with call stacks (E4), what is stored where (two homes,
E5), values returned by entry points / handed to foreign code (escape), resolved call edges.
"""

import ast

from sa.core import ClassInfo, FuncInfo, Module, NotFoldable, Opaque, unparse
from sa.guards import FuncGuards

S = ("S",)
SAV = frozenset([S])
EMPTY = frozenset()

MUTATORS_STORE = {"append", "extend", "insert", "add", "update", "setdefault", "put", "appendleft"}
MUTATORS_OTHER = {"pop", "popitem", "remove", "clear", "sort", "reverse", "discard"}
READERS = {"get", "items", "keys", "values", "copy", "index", "count", "empty", "qsize",
           "startswith", "endswith", "strip", "split", "join", "format", "replace", "lower",
           "upper", "lstrip", "rstrip", "encode", "decode", "find", "isdigit", "union",
           "issubset", "issuperset", "intersection", "difference", "title", "splitlines"}
BUILTIN_METHODS = MUTATORS_STORE | MUTATORS_OTHER | READERS
SCALAR_FUNCS = {"len", "str", "int", "float", "bool", "isinstance", "issubclass", "hasattr",
                "type", "repr", "any", "all", "sum", "id", "hash", "callable", "print", "abs",
                "round", "ord", "chr", "range", "divmod"}
CONTAINER_FUNCS = {"list", "tuple", "set", "frozenset", "sorted", "reversed", "iter"}

# attribute -> kind seeds (reason): the conductor keeps non-state collaborators in these
# attributes; they are typed here because their construction goes through plugin loading.
KIND_SEEDS = {
    ("WC", "_graph"): ("K", "GRAPH"),       # composer.compose(spec) returns graphing.WorkflowGraph
    ("WC", "spec"): ("K", "WFSPEC"),        # checked isinstance(spec, spec_base.Spec) in __init__
    ("WC", "composer"): ("K", "COMPOSER"),  # plugin_util.get_module('orquesta.composers', ...)
    ("WC", "spec_module"): ("O", "spec_module"),
    ("WC", "catalog"): S,
}
KIND_CLASS = {
    "GRAPH": "graphing.WorkflowGraph",
    "WFSPEC": "specs.native.v1.models.WorkflowSpec",
    "TASKS": "specs.native.v1.models.TaskMappingSpec",
    "TASKSPEC": "specs.native.v1.models.TaskSpec",
    "ITEMSPEC": "specs.native.v1.models.ItemizedSpec",
    "RETRYSPEC": "specs.native.v1.models.TaskRetrySpec",
    "TRANSSEQ": "specs.native.v1.models.TaskTransitionSequenceSpec",
    "TRANS": "specs.native.v1.models.TaskTransitionSpec",
    "COMPOSER": "composers.native.WorkflowComposer",
}
KIND_ATTR = {
    ("WFSPEC", "tasks"): ("K", "TASKS"),
    ("TASKSPEC", "with"): ("K", "ITEMSPEC"),
    ("TASKSPEC", "retry"): ("K", "RETRYSPEC"),
    ("TASKSPEC", "next"): ("K", "TRANSSEQ"),
}
KIND_METHOD_RET = {
    ("TASKS", "get_task"): ("K", "TASKSPEC"),
    ("TASKS", "__getitem__"): ("K", "TASKSPEC"),
    ("TASKSPEC", "copy"): ("K", "TASKSPEC"),
    ("TASKSPEC", "get_items_spec"): ("K", "ITEMSPEC"),
    ("TRANSSEQ", "__getitem__"): ("K", "TRANS"),
}
ROOT_CLASS = {"WS": "conducting.WorkflowState", "WC": "conducting.WorkflowConductor"}


MERGE_FN = "utils.dictionary.merge_dicts"


def merge_contract_violations(f):
    """Structural contract of merge_dicts(left, right, ...): every store goes through the first
    parameter (or a value read from it), the second parameter and its elements are only read,
    and the function returns one of its first two parameters.  Returns a list of
    (node, message); empty when the body has the summarised shape."""
    out = []
    if len(f.params) < 2:
        return [(f.node, "merge_dicts takes fewer than two parameters")]
    left, right = f.params[0], f.params[1]
    left_derived = {left}
    right_derived = {right}
    for n in ast.walk(f.node):
        if isinstance(n, ast.Assign) and len(n.targets) == 1 and isinstance(n.targets[0], ast.Name):
            v = n.value
            if isinstance(v, ast.Subscript) and isinstance(v.value, ast.Name) and v.value.id in left_derived:
                left_derived.add(n.targets[0].id)
        if isinstance(n, ast.For):
            it = n.iter
            if isinstance(it, ast.Call) and isinstance(it.func, ast.Attribute) and isinstance(
                    it.func.value, ast.Name) and it.func.value.id in right_derived:
                for x in ast.walk(n.target):
                    if isinstance(x, ast.Name):
                        right_derived.add(x.id)

    def base(x):
        while isinstance(x, (ast.Subscript, ast.Attribute)):
            x = x.value
        return x.id if isinstance(x, ast.Name) else None

    for n in ast.walk(f.node):
        tgts = []
        if isinstance(n, ast.Assign):
            tgts = n.targets
        elif isinstance(n, (ast.AugAssign, ast.AnnAssign)):
            tgts = [n.target]
        elif isinstance(n, ast.Delete):
            tgts = n.targets
        for t in tgts:
            if isinstance(t, (ast.Subscript, ast.Attribute)):
                b = base(t)
                if b not in left_derived:
                    out.append((n, "store through %r, which is not the first parameter" % b))
        if isinstance(n, ast.Call) and isinstance(n.func, ast.Attribute) and n.func.attr in (
                MUTATORS_STORE | MUTATORS_OTHER):
            b = base(n.func.value)
            if b not in left_derived:
                out.append((n, "mutating call .%s() on %r" % (n.func.attr, b)))
        if isinstance(n, ast.Call) and isinstance(n.func, ast.Name) and n.func.id == f.name:
            if n.args and base(n.args[0]) not in left_derived:
                out.append((n, "recursive call mutates %r" % base(n.args[0])))
        if isinstance(n, ast.Return) and n.value is not None:
            if not (isinstance(n.value, ast.Name) and n.value.id in (left, right)):
                out.append((n, "returns something other than one of its first two parameters"))
    return out


def canon(path):
    """Canonical persistent path: the two objects reference each other."""
    path = tuple(path)
    # bound the depth: at most two consecutive element steps, at most 8 components
    if len(path) > 3 and path[-1] == "*" and path[-2] == "*" and path[-3] == "*":
        while len(path) > 3 and path[-3] == "*" and path[-2] == "*" and path[-1] == "*":
            path = path[:-1]
    if len(path) > 8:
        path = path[:8]
    while True:
        if len(path) >= 2 and path[0] == "WC" and path[1] in ("_workflow_state",):
            path = ("WS",) + path[2:]
        elif len(path) >= 2 and path[0] == "WS" and path[1] == "conductor":
            path = ("WC",) + path[2:]
        else:
            return path


class Effect(object):
    __slots__ = ("op", "path", "value", "func", "node", "stack", "via", "origin", "guards")
    kind = "effect"

    def lifted(self, frame, g):
        e = Effect(self.op, self.path, self.value, self.func, self.node,
                   (frame,) + tuple(self.stack), self.via, self.origin)
        e.guards = self.guards | g
        return e

    def base(self):
        # one antichain per write site *and* per call of the current frame through which it
        # is reached: a second, conditional call of the same writer is an effect of its own
        return ("effect", self.op, self.path, id(self.node),
                id(self.stack[0][1]) if self.stack else 0)

    def __init__(self, op, path, value, func, node, stack, via, origin=None):
        self.guards = frozenset()
        self.op = op          # setitem, setattr, delitem, augassign, append, extend, pop, ...
        self.path = path      # persistent path written (container path, incl. field for set*)
        self.value = value    # AV stored (EMPTY for pure removals)
        self.func = func      # FuncInfo of the syntactic site
        self.node = node      # ast node of the site
        self.stack = stack    # tuple of (FuncInfo, call node) frames, outermost first
        self.via = via        # 'P' direct persistent reference | 'F' moved fresh object
        self.origin = origin

    def entry(self):
        return self.stack[0][0] if self.stack else self.func

    def chain(self):
        return [f.qualname for f, _ in self.stack] + [self.func.qualname]


class AliasStore(object):
    """A reference to persistent object `src` was stored at persistent location `dst`."""
    __slots__ = ("dst", "src", "func", "node", "stack", "guards")
    kind = "alias"

    def __init__(self, dst, src, func, node, stack):
        self.dst, self.src, self.func, self.node, self.stack = dst, src, func, node, stack
        self.guards = frozenset()

    def lifted(self, frame, g):
        e = AliasStore(self.dst, self.src, self.func, self.node, (frame,) + tuple(self.stack))
        e.guards = self.guards | g
        return e

    def base(self):
        return ("alias", self.dst, self.src, id(self.node))

    def chain(self):
        return [f.qualname for f, _ in self.stack] + [self.func.qualname]


class Escape(object):
    __slots__ = ("what", "av", "func", "node", "stack", "callee", "guards")
    kind = "escape"

    def __init__(self, what, av, func, node, stack, callee=None):
        self.what, self.av, self.func, self.node, self.stack, self.callee = (
            what, av, func, node, stack, callee)
        self.guards = frozenset()

    def lifted(self, frame, g):
        e = Escape(self.what, self.av, self.func, self.node, (frame,) + tuple(self.stack),
                   self.callee)
        e.guards = self.guards | g
        return e

    def base(self):
        return ("escape", self.what, id(self.node), self.callee)

    def chain(self):
        return [f.qualname for f, _ in self.stack] + [self.func.qualname]


class Frame(object):
    def __init__(self, func, env, stack, ctx=None):
        self.func = func
        self.env = env
        self.stack = stack  # tuple of (FuncInfo, call node) of callers
        # heap context: position of the call that entered this frame (1-call-site
        # sensitivity); recursive calls share the context of the outermost call
        self.ctx = ctx
        self.rets = set()
        self._events = {}
        self.moved = set()  # fresh objects stored into persistent state so far (flow order)
        self.allocated = set()  # allocation sites executed in this frame (or its callees)

    def emit(self, ev):
        """Keep, per event site, an antichain of minimal guard sets (one witness stack each)."""
        lst = self._events.setdefault(ev.base(), [])
        g = ev.guards
        for other in lst:
            if other.guards <= g:
                if ev.kind == "effect" and ev.value and ev.value - other.value:
                    other.value = other.value | ev.value
                return
        lst[:] = [o for o in lst if not (g <= o.guards)]
        if len(lst) < 6:
            lst.append(ev)

    @property
    def effects(self):
        out = []
        for lst in self._events.values():
            out.extend(lst)
        return out


class Analysis(object):
    MAX_ROUNDS = 10

    def __init__(self, prog, entry_classes=("conducting.WorkflowConductor",
                                            "conducting.WorkflowState")):
        self.prog = prog
        self.entry_classes = entry_classes
        self.heap = {}          # site -> {field: set(tags)}
        self.homes = {}         # site -> set(persistent paths)
        self.pstore = {}        # persistent path -> set(tags) stored there
        self.container_use = set()
        self.call_edges = {}    # (caller qualname, id(call node)) -> set(callee qualname)
        self.call_nodes = {}    # id(call node) -> (FuncInfo caller, node)
        self.stats = {"resolved": 0, "cha": 0, "foreign": 0, "builtin": 0}
        self.entry_effects = {}  # entry qualname -> list(Effect)
        self.entry_rets = {}
        self.memo = {}
        self.prev = {}
        self.inprogress = set()
        self.changed = False
        self.unmodelled = []
        self._gcache = {}
        self.order_ops = []
        self._order_seen = set()
        self._home_node = {}
        self.deep_sites = set()
        self.scalar_use = set()
        self._lazy = {}
        self._reach_cache = {}
        self.heap_version = 0
        self._fguards = {}
        self.ncalls = {}
        self._merge_ok = None

    # ================================================================== driver
    def entries(self):
        out = []
        for q in self.entry_classes:
            ci = self.prog.cls(q)
            root = "WC" if q.endswith("WorkflowConductor") else "WS"
            for name, f in ci.methods.items():
                if self.prog.is_dead_helper(f):
                    continue  # expanded at every call site by the inlining pass
                out.append((f, root))
        return out

    def run(self):
        for rnd in range(self.MAX_ROUNDS):
            self.changed = False
            self.purge_scalars()
            self.prev = dict(self.memo)
            self.memo = {}
            self.entry_effects = {}
            for f, root in self.entries():
                args = []
                for i, p in enumerate(f.params):
                    if i == 0 and not f.is_staticmethod:
                        if f.is_classmethod:
                            args.append(frozenset([("C", f.cls.qualname)]))
                        else:
                            args.append(frozenset([("P", (root,))]))
                    else:
                        args.append(frozenset([("O", "arg:%s" % p)]))
                ret, effects, _, _ = self.call_function(f, args, {}, None, ())
                self.entry_effects[f.qualname] = effects
                self.entry_rets[f.qualname] = ret
            self.rounds = rnd + 1
            if not self.changed:
                break
        return self

    # ================================================================== guards
    def site_guards(self, func, node):
        """Guard atoms of a node inside func, qualified by the function."""
        k = id(node)
        if k in self._gcache:
            return self._gcache[k]
        fg = self._fguards.get(func.qualname)
        if fg is None:
            fg = self._fguards[func.qualname] = FuncGuards(self.prog, func)
        try:
            atoms = fg.atoms(node)
        except Exception:
            atoms = []
        g = frozenset((func.qualname, a) for a in atoms)
        self._gcache[k] = g
        return g

    # ================================================================== heap
    def hget(self, site, field):
        d = self.heap.get(site)
        if not d:
            return EMPTY
        out = set(d.get(field, ()))
        if field != "*":
            out |= d.get("*", set())
        return frozenset(out)

    def hall(self, site):
        d = self.heap.get(site)
        out = set()
        if d:
            for v in d.values():
                out |= v
        return frozenset(out)

    def hput(self, site, field, av):
        if not av:
            return
        d = self.heap.setdefault(site, {})
        cur = d.setdefault(field, set())
        n = len(cur)
        cur |= av
        if len(cur) != n:
            self.changed = True
            self.heap_version += 1

    def fresh(self, fr, node, kind, fields=None, deep=False):
        site = (fr.func.qualname, getattr(node, "lineno", 0), getattr(node, "col_offset", 0), kind,
                fr.ctx)
        tag = ("F", site)
        # a newly allocated object is not the instance that was moved earlier
        fr.moved.discard(tag)
        fr.allocated.add(tag)
        if deep:
            inner = site[:3] + (site[3] + "#in",) + site[4:]
            self.deep_sites.add(site)
            self.deep_sites.add(inner)
            self.hput(site, "*", frozenset([("F", inner), S]))
            self.hput(inner, "*", frozenset([("F", inner), S]))
        if fields:
            for k, v in fields.items():
                self.hput(site, k, v)
        return frozenset([tag])

    def elems(self, av):
        out = set()
        for t in av:
            if t[0] == "P":
                self.container_use.add(t[1])
                out.add(self.pread(t[1] + ("*",)))
            elif t[0] == "F":
                out |= self.hall(t[1])
            elif t[0] in ("O", "K"):
                out.add(("O", t[1]) if t[0] == "O" else ("O", "elem:%s" % t[1]))
            elif t[0] == "S":
                out.add(S)
        return frozenset(out)

    def is_scalar_path(self, path):
        for i in range(2, len(path) + 1):
            if path[:i] in self.scalar_use:
                return True
        return False

    def pread(self, path):
        path = canon(path)
        if self.is_scalar_path(path):
            return S
        return ("P", path)

    def purge_scalars(self):
        """Drop references to paths that turned out to be scalars (evidence found in an
        earlier round) from the retained heap."""
        def keep(t):
            return not (t[0] == "P" and self.is_scalar_path(t[1]))
        for site, flds in self.heap.items():
            for k in list(flds):
                flds[k] = {t if keep(t) else S for t in flds[k]}
        for path in list(self.pstore):
            if self.is_scalar_path(path):
                del self.pstore[path]
            else:
                self.pstore[path] = {t for t in self.pstore[path] if keep(t)}
        for site in list(self.homes):
            self.homes[site] = {h for h in self.homes[site] if not self.is_scalar_path(h)}
        self.container_use = {p for p in self.container_use if not self.is_scalar_path(p)}
        self._reach_cache.clear()

    def field(self, av, key, fr=None, node=None):
        """Read of av[key] / av.key with a constant key (or '*')."""
        out = set()
        for t in av:
            if t[0] == "P":
                self.container_use.add(t[1])
                out.add(self.pread(t[1] + (key,)))
            elif t[0] == "F":
                out |= self.hget(t[1], key) if key != "*" else self.hall(t[1])
            elif t[0] == "O":
                out.add(t)
            elif t[0] == "K":
                out.add(("O", "elem:%s" % t[1]))
            elif t[0] == "S":
                out.add(S)
        return frozenset(out)

    # ================================================================== stores
    def reach(self, av, seen=None, struct=False):
        """All tags reachable from av through the fresh heap, each with one (shortest) field
        path.  struct=True follows constant-key fields only (the sub-objects a display was
        built with), not element/wildcard fields."""
        ck = (av, self.heap_version, struct)
        if ck in self._reach_cache:
            return self._reach_cache[ck]
        out = []
        seen = set()
        todo = [(t, ()) for t in av]
        i = 0
        while i < len(todo):
            t, sub = todo[i]
            i += 1
            if t in seen:
                continue
            seen.add(t)
            out.append((t, sub))
            if t[0] == "F" and len(sub) < 6:
                for fld, vals in self.heap.get(t[1], {}).items():
                    if struct and fld == "*":
                        continue
                    for v in vals:
                        if v not in seen:
                            todo.append((v, sub + (fld,)))
        if len(self._reach_cache) > 5000:
            self._reach_cache.clear()
        self._reach_cache[ck] = out
        return out

    def store(self, fr, targets, field, value, op, node):
        """Store `value` under `field` of every object in `targets`; returns nothing.
        Records persistent effects, homes and alias stores."""
        fr.moved_before = frozenset(fr.moved)
        for t in targets:
            if t[0] == "P":
                path = canon(t[1] + ((field,) if field is not None else ()))
                self.container_use.add(t[1])
                self._persist(fr, path, value, op, node, "P")
            elif t[0] == "F":
                if field is not None:
                    self.hput(t[1], field, value)
                if t in fr.moved:
                    for home in sorted(self.homes.get(t[1], ())):
                        path = canon(home + ((field,) if field is not None else ()))
                        self._persist(fr, path, value, op, node, "F")

    def _persist(self, fr, path, value, op, node, via):
        ev = Effect(op, path, value, fr.func, node, (), via)
        ev.guards = self.site_guards(fr.func, node)
        fr.emit(ev)
        if value and any(t[0] in ("F", "P") for t in value) and not self.is_scalar_path(path):
            cur = self.pstore.setdefault(path, set())
            n = len(cur)
            cur |= value
            if len(cur) != n:
                self.changed = True
            for t, sub in self.reach(value, struct=True):
                if t[0] == "F":
                    h = canon(path + sub)
                    if t in getattr(fr, "moved_before", fr.moved) and t[1] not in self.deep_inner():
                        for h2 in sorted(self.homes.get(t[1], ())):
                            if h2 != h and not self.is_scalar_path(h2) and \
                                    self._home_node.get((t[1], h2)) != id(node):
                                al = AliasStore(h, h2, fr.func, node, ())
                                al.guards = self.site_guards(fr.func, node)
                                fr.emit(al)
                    fr.moved.add(t)
                    hs = self.homes.setdefault(t[1], set())
                    self._home_node.setdefault((t[1], h), id(node))
                    if h not in hs and len(hs) < 4 and not self.is_scalar_path(h):
                        hs.add(h)
                        self.changed = True
                elif t[0] == "P":
                    al = AliasStore(canon(path + sub), t[1], fr.func, node, ())
                    al.guards = self.site_guards(fr.func, node)
                    fr.emit(al)

    def deep_inner(self):
        return {s for s in self.deep_sites if s[3].endswith("#in")}

    def _escape(self, fr, kind, av, node, callee=None):
        if not any(t[0] == "P" for t, _ in self.reach(av)):
            return
        es = Escape(kind, av, fr.func, node, (), callee)
        es.guards = self.site_guards(fr.func, node)
        fr.emit(es)

    # ================================================================== calls
    def call_function(self, f, args, kwargs, call_node, stack, closure_env=None, caller=None):
        """Analyse f with abstract positional args; returns (ret AV, effects)."""
        if caller is not None and caller.func is f:
            ctx = caller.ctx
        elif stack:
            cf, cn = stack[-1]
            ctx = (cf.qualname, getattr(cn, "lineno", 0), getattr(cn, "col_offset", 0))
        else:
            ctx = None
        env = dict(closure_env) if closure_env else {}
        params = f.params
        node = f.node
        defaults = node.args.defaults
        # defaults
        nd = len(defaults)
        for i, d in enumerate(defaults):
            env[params[len(params) - nd + i]] = self._const_default(d)
        for a, d in zip(node.args.kwonlyargs, node.args.kw_defaults):
            env[a.arg] = self._const_default(d) if d is not None else SAV
        for i, a in enumerate(args):
            if i < len(params):
                env[params[i]] = a
            elif f.vararg:
                env[f.vararg] = env.get(f.vararg, EMPTY) | a
        for k, v in kwargs.items():
            if k in params or k in f.kwonly:
                env[k] = v
            elif f.kwarg:
                env[f.kwarg] = env.get(f.kwarg, EMPTY) | v
        for p in params:
            env.setdefault(p, frozenset([("O", "arg:%s" % p)]))
        if f.vararg:
            env[f.vararg] = frozenset([("O", "varargs")]) | env.get(f.vararg, EMPTY)
        if f.kwarg:
            env[f.kwarg] = frozenset([("O", "kwargs")]) | env.get(f.kwarg, EMPTY)
        moved_in = frozenset()
        if caller is not None and caller.moved:
            argtags = set()
            for v in env.values():
                argtags |= v
            moved_in = frozenset(t for t, _ in self.reach(frozenset(argtags), struct=True)
                                 if t in caller.moved)
        key = (f.qualname, ctx, moved_in,
               tuple(sorted((k, v) for k, v in env.items() if k in params
                            or k == f.vararg or k == f.kwarg or k in f.kwonly)))
        if closure_env is None:
            if key in self.memo:
                return self.memo[key]
            if key in self.inprogress:
                # recursion on the same abstract context: its events are those of the
                # activation being computed; only the return value is taken from last round
                old = self.prev.get(key)
                return (old[0] if old else EMPTY, [], frozenset(), frozenset())
        if len(stack) > 24:
            return (frozenset([("O", "depth")]), [], frozenset(), frozenset())
        self.inprogress.add(key)
        self.ncalls[f.qualname] = self.ncalls.get(f.qualname, 0) + 1
        fr = Frame(f, env, stack, ctx)
        fr.moved |= moved_in
        try:
            self.block(fr, node.body)
        finally:
            self.inprogress.discard(key)
        ret = frozenset(fr.rets) if fr.rets else SAV
        res = (ret, fr.effects, frozenset(fr.moved), frozenset(fr.allocated))
        if closure_env is None:
            old = self.prev.get(key)
            if old is None or old[0] != ret or len(old[1]) != len(res[1]):
                self.changed = True
            self.memo[key] = res
        return res

    def _const_default(self, d):
        if isinstance(d, ast.Constant):
            return SAV
        if isinstance(d, (ast.List, ast.Dict, ast.Tuple)):
            return frozenset([("F", ("default", d.lineno, d.col_offset, "default"))])
        return frozenset([("O", "default")])

    def is_lazy_init(self, f):
        """Property of the form  if not self._x: <initialise>; return self._x  (cached
        attribute).  Its effects are construction; they are analysed with the property as an
        entry point of its own and not re-attributed to every reader."""
        if f.qualname in self._lazy:
            return self._lazy[f.qualname]
        ok = False
        body = [b for b in f.node.body if not (isinstance(b, ast.Expr) and isinstance(
            b.value, ast.Constant))]
        if f.is_property and body and isinstance(body[0], ast.If) and not body[0].orelse:
            t = body[0].test
            absent = None
            if isinstance(t, ast.UnaryOp) and isinstance(t.op, ast.Not):
                attr, absent = t.operand, True
            elif isinstance(t, ast.Compare) and len(t.ops) == 1 and isinstance(
                    t.comparators[0], ast.Constant) and t.comparators[0].value is None:
                attr = t.left
                absent = True if isinstance(t.ops[0], ast.Is) else (
                    False if isinstance(t.ops[0], ast.IsNot) else None)
            else:
                attr, absent = t, False
            rets = [r for r in ast.walk(f.node) if isinstance(r, ast.Return)]
            if isinstance(attr, ast.Attribute) and absent is not None and rets and all(
                    r.value is not None and unparse(r.value) == unparse(attr) for r in rets):
                if absent:
                    # if not self._x: <initialise>; return self._x
                    ok = len(body) == 2 and isinstance(body[1], ast.Return)
                else:
                    # if self._x: return self._x; <initialise>; return self._x
                    ok = len(body[0].body) == 1 and isinstance(body[0].body[0], ast.Return) \
                        and isinstance(body[-1], ast.Return)
        self._lazy[f.qualname] = ok
        return ok

    # ------------------------------------------------------------------ merge_dicts summary
    def merge_contract_ok(self):
        if self._merge_ok is None:
            f = self.prog.find_function(MERGE_FN)
            self._merge_ok = bool(f is not None and not merge_contract_violations(f))
        return self._merge_ok

    def apply_merge(self, fr, f, args, kwargs, node):
        """Summary of utils.dictionary.merge_dicts(left, right): deep-mutates left, stores
        references to sub-objects of right into left, returns left (or right if left is None).
        The summary is only used after merge_contract_violations() found the body to have that
        shape on this run."""
        left = args[0] if args else kwargs.get("left", EMPTY)
        right = args[1] if len(args) > 1 else kwargs.get("right", EMPTY)
        refs = set()
        for t, sub in self.reach(right):
            if t[0] == "P":
                self.container_use.add(t[1])
                if not sub:
                    refs.add(self.pread(t[1] + ("*",)))
                else:
                    refs.add(t)
            elif t[0] == "F":
                if sub:
                    refs.add(t)
            elif t[0] == "O":
                refs.add(t)
        refs.discard(S)
        refs = frozenset(refs)
        fr.moved_before = frozenset(fr.moved)
        for t in left:
            if t[0] == "P":
                self.container_use.add(t[1])
                self._persist(fr, canon(t[1] + ("*",)), refs, "merge", node, "P")
            elif t[0] == "F":
                # sub-objects already held by left are merged into in place
                held = [x for x, sub in self.reach(frozenset([t])) if sub]
                for x in held:
                    if x[0] == "P":
                        self._persist(fr, canon(x[1] + ("*",)), refs, "merge", node, "held")
                if t in fr.moved:
                    for home in sorted(self.homes.get(t[1], ())):
                        self._persist(fr, canon(home + ("*",)), refs, "merge", node, "F")
                self.hput(t[1], "*", refs)
                # keys keep their names: remember engine-internal (double underscore) keys
                for rt in right:
                    if rt[0] == "F":
                        for fld, vals in list(self.heap.get(rt[1], {}).items()):
                            if isinstance(fld, str) and fld.startswith("__"):
                                self.hput(t[1], fld, frozenset(vals))
        if S in left or not left:
            return left | right  # merge_dicts(None, right) returns right
        return left

    def _invoke(self, fr, f, args, kwargs, node, closure_env=None):
        self.call_edges.setdefault((fr.func.qualname, id(node)), set()).add(f.qualname)
        self.call_nodes[id(node)] = (fr.func, node)
        if f.qualname == MERGE_FN and self.merge_contract_ok():
            return self.apply_merge(fr, f, args, kwargs, node)
        ret, effects, moved, allocated = self.call_function(
            f, args, kwargs, node, fr.stack + ((fr.func, node),), closure_env, caller=fr)
        fr.moved -= allocated
        fr.allocated |= allocated
        fr.moved |= moved
        if self.is_lazy_init(f):
            return ret
        frame = (fr.func, node)
        g = self.site_guards(fr.func, node)
        for e in effects:
            fr.emit(e.lifted(frame, g))
        return ret

    # ================================================================== statements
    def block(self, fr, stmts):
        for s in stmts:
            self.stmt(fr, s)

    def stmt(self, fr, s):
        if isinstance(s, ast.Expr):
            self.expr(fr, s.value)
        elif isinstance(s, ast.Assign):
            v = self.expr(fr, s.value)
            for t in s.targets:
                self.assign(fr, t, v, s)
        elif isinstance(s, ast.AnnAssign):
            if s.value is not None:
                self.assign(fr, s.target, self.expr(fr, s.value), s)
        elif isinstance(s, ast.AugAssign):
            v = self.expr(fr, s.value)
            t = s.target
            if isinstance(t, ast.Name):
                fr.env[t.id] = fr.env.get(t.id, EMPTY) | v | SAV
            elif isinstance(t, ast.Subscript):
                base = self.expr(fr, t.value)
                self.expr(fr, t.slice)
                if isinstance(s.value, ast.Constant) and isinstance(s.value.value, (int, float)):
                    self.mark_scalar(self.field(base, self._key(fr, t.slice)))
                self.store(fr, base, self._key(fr, t.slice), v | SAV, "augassign", s)
            elif isinstance(t, ast.Attribute):
                base = self.expr(fr, t.value)
                self.store(fr, base, t.attr, v | SAV, "augassign", s)
        elif isinstance(s, ast.Return):
            if s.value is not None:
                fr.rets |= self.expr(fr, s.value)
            else:
                fr.rets.add(S)
        elif isinstance(s, ast.If):
            self.expr(fr, s.test)
            verdict = self._static_isinstance(fr, s.test)
            if verdict is True:
                self.block(fr, s.body)
                return
            if verdict is False:
                self.block(fr, s.orelse)
                return
            e0 = dict(fr.env)
            self.block(fr, s.body)
            e1 = fr.env
            fr.env = dict(e0)
            self.block(fr, s.orelse)
            fr.env = self.join(e1, fr.env)
        elif isinstance(s, (ast.For, ast.AsyncFor)):
            it = self.expr(fr, s.iter)
            for _ in range(3):
                before = dict(fr.env)
                self.assign(fr, s.target, self.elems(it), s)
                self.block(fr, s.body)
                fr.env = self.join(before, fr.env)
                if fr.env == before:
                    break
            self.block(fr, s.orelse)
        elif isinstance(s, ast.While):
            for _ in range(3):
                before = dict(fr.env)
                self.expr(fr, s.test)
                self.block(fr, s.body)
                fr.env = self.join(before, fr.env)
                if fr.env == before:
                    break
            self.block(fr, s.orelse)
        elif isinstance(s, ast.Try):
            e0 = dict(fr.env)
            self.block(fr, s.body)
            ebody = dict(fr.env)
            outs = []
            self.block(fr, s.orelse)
            outs.append(dict(fr.env))
            for h in s.handlers:
                fr.env = self.join(e0, ebody)
                if h.type is not None:
                    self.expr(fr, h.type)
                if h.name:
                    fr.env[h.name] = frozenset([("O", "exception")])
                self.block(fr, h.body)
                outs.append(dict(fr.env))
            env = outs[0]
            for o in outs[1:]:
                env = self.join(env, o)
            fr.env = env
            self.block(fr, s.finalbody)
        elif isinstance(s, (ast.With, ast.AsyncWith)):
            for item in s.items:
                v = self.expr(fr, item.context_expr)
                if item.optional_vars is not None:
                    self.assign(fr, item.optional_vars, v, s)
            self.block(fr, s.body)
        elif isinstance(s, ast.Raise):
            if s.exc is not None:
                self.expr(fr, s.exc)
        elif isinstance(s, ast.Delete):
            for t in s.targets:
                if isinstance(t, ast.Subscript):
                    base = self.expr(fr, t.value)
                    self.expr(fr, t.slice)
                    self.store(fr, base, self._key(fr, t.slice), EMPTY, "delitem", s)
                elif isinstance(t, ast.Attribute):
                    base = self.expr(fr, t.value)
                    self.store(fr, base, t.attr, EMPTY, "delattr", s)
                elif isinstance(t, ast.Name):
                    fr.env.pop(t.id, None)
        elif isinstance(s, (ast.FunctionDef, ast.AsyncFunctionDef)):
            fi = None
            for nf in self.prog.nested_functions:
                if nf.node is s:
                    fi = nf
            if fi is not None:
                fr.env[s.name] = frozenset([("FN", fi.qualname, "closure")])
                fr.closures = getattr(fr, "closures", {})
                fr.closures[fi.qualname] = fi
        elif isinstance(s, ast.Assert):
            self.expr(fr, s.test)
        elif isinstance(s, (ast.Pass, ast.Break, ast.Continue, ast.Global, ast.Nonlocal,
                            ast.Import, ast.ImportFrom, ast.ClassDef)):
            pass
        else:
            self.unmodelled.append((fr.func.qualname, type(s).__name__))

    def _static_isinstance(self, fr, test):
        """isinstance(x, C) decided statically when x is known to be an instance of one
        repository class (event dispatch)."""
        if not (isinstance(test, ast.Call) and isinstance(test.func, ast.Name)
                and test.func.id == "isinstance" and len(test.args) == 2
                and isinstance(test.args[0], ast.Name)):
            return None
        av = fr.env.get(test.args[0].id)
        if not av or not all(t[0] == "K" and str(t[1]).startswith("EVENT:") for t in av):
            return None
        tgt = self.prog.resolve_name_expr(test.args[1], fr.func.module)
        if not isinstance(tgt, ClassInfo):
            return None
        verdicts = set()
        for t in av:
            ci = self._class(t[1][6:])
            if ci is None:
                return None
            verdicts.add(tgt in self.prog.mro(ci))
        return verdicts.pop() if len(verdicts) == 1 else None

    def join(self, a, b):
        out = dict(a)
        for k, v in b.items():
            out[k] = out.get(k, EMPTY) | v
        return out

    def assign(self, fr, target, v, stmt):
        if isinstance(target, ast.Name):
            fr.env[target.id] = v
        elif isinstance(target, (ast.Tuple, ast.List)):
            for i, e in enumerate(target.elts):
                if isinstance(e, ast.Starred):
                    self.assign(fr, e.value, self.elems(v), stmt)
                else:
                    self.assign(fr, e, self.field(v, str(i)) | self._pairsplit(v, i), stmt)
        elif isinstance(target, ast.Subscript):
            base = self.expr(fr, target.value)
            self.expr(fr, target.slice)
            self.store(fr, base, self._key(fr, target.slice), v, "setitem", stmt)
        elif isinstance(target, ast.Attribute):
            base = self.expr(fr, target.value)
            self.store(fr, base, target.attr, v, "setattr", stmt)

    def _pairsplit(self, v, i):
        # opaque / persistent tuples: unpacking yields their elements
        out = set()
        for t in v:
            if t[0] == "O":
                out.add(t)
        return frozenset(out)

    def _key(self, fr, sl):
        if isinstance(sl, ast.Constant) and isinstance(sl.value, (str, int)):
            return str(sl.value) if not isinstance(sl.value, bool) else "*"
        if isinstance(sl, ast.Slice):
            return "*"
        try:
            v = self.prog.fold(sl, fr.func.module)
            if isinstance(v, (str, int)) and not isinstance(v, bool):
                return str(v)
        except NotFoldable:
            pass
        return "*"

    # ================================================================== expressions
    def expr(self, fr, e):
        m = getattr(self, "e_" + type(e).__name__, None)
        if m is None:
            self.unmodelled.append((fr.func.qualname, type(e).__name__))
            return frozenset([("O", "unmodelled")])
        return m(fr, e)

    def e_Constant(self, fr, e):
        return SAV

    def e_JoinedStr(self, fr, e):
        for v in e.values:
            if isinstance(v, ast.FormattedValue):
                self.expr(fr, v.value)
        return SAV

    def e_FormattedValue(self, fr, e):
        self.expr(fr, e.value)
        return SAV

    def e_Name(self, fr, e):
        if e.id in fr.env:
            return fr.env[e.id]
        return self.global_value(fr.func.module, e.id)

    def global_value(self, module, name):
        tgt = self.prog.resolve_global(module, name)
        if isinstance(tgt, Module):
            return frozenset([("M", tgt.name)])
        if isinstance(tgt, ClassInfo):
            return frozenset([("C", tgt.qualname)])
        if isinstance(tgt, FuncInfo):
            return frozenset([("FN", tgt.qualname, None)])
        if isinstance(tgt, tuple) and tgt[0] == "binding":
            return SAV  # module-level data: constants (tables, status lists, loggers)
        if name in module.imports:
            imp = module.imports[name]
            return frozenset([("X", imp[1] if imp[0] == "module" else imp[1] + "." + imp[2])])
        if name in SCALAR_FUNCS or name in CONTAINER_FUNCS or name in (
                "dict", "zip", "enumerate", "filter", "map", "getattr", "setattr", "super",
                "min", "max", "next", "object", "Exception", "ValueError", "TypeError",
                "KeyError", "NotImplementedError", "AttributeError", "isinstance"):
            return frozenset([("B", name)])
        return frozenset([("O", "global:%s" % name)])

    def e_Attribute(self, fr, e):
        base = self.expr(fr, e.value)
        return self.getattr(fr, base, e.attr, e)

    def getattr(self, fr, base, attr, node):
        out = set()
        for t in base:
            k = t[0]
            if k == "P":
                root_cls = None
                if t[1] == ("WS",) or t[1] == ("WC",):
                    root_cls = self.prog.cls(ROOT_CLASS[t[1][0]])
                    seed = KIND_SEEDS.get((t[1][0], attr))
                    if seed is not None:
                        out.add(seed)
                        continue
                    m = self.prog.lookup_method(root_cls, attr)
                    if m is not None:
                        if m.is_property:
                            out |= self._invoke(fr, m, [frozenset([t])], {}, node)
                        else:
                            out.add(("FN", m.qualname, t))
                        continue
                out.add(self.pread(t[1] + (attr,)))
            elif k == "M":
                out |= self.global_value(self.prog.modules[t[1]], attr)
            elif k == "X":
                out.add(("X", t[1] + "." + attr))
            elif k == "C":
                ci = self._class(t[1])
                m = self.prog.lookup_method(ci, attr) if ci else None
                if m is not None:
                    out.add(("FN", m.qualname, t if (m.is_classmethod) else None))
                else:
                    _, anode = self.prog.lookup_class_attr(ci, attr) if ci else (None, None)
                    if anode is not None and isinstance(anode, ast.Call):
                        out.add(("O", "classattr:%s" % attr))
                    else:
                        out.add(S)
            elif k == "K":
                ka = KIND_ATTR.get((t[1], attr))
                if ka is not None:
                    out.add(ka)
                    continue
                if t[1] == "GRAPH" and attr == "_graph":
                    # the networkx graph held by WorkflowGraph is persisted state too
                    out.add(("P", ("WC", "_graph", "nx")))
                    continue
                ci = self._kind_class(t[1])
                m = self.prog.lookup_method(ci, attr) if ci else None
                if m is not None:
                    if m.is_property:
                        out |= self._invoke(fr, m, [frozenset([t])], {}, node)
                    else:
                        out.add(("FN", m.qualname, t))
                else:
                    out.add(("O", "%s.%s" % (t[1], attr)))
            elif k == "F":
                out |= self.hget(t[1], attr)
            elif k == "O":
                out.add(t)
            elif k == "S":
                out.add(S)
            elif k == "SUPER":
                ci = self._class(t[1])
                m = None
                if ci:
                    for c in self.prog.mro(ci)[1:]:
                        if attr in c.methods:
                            m = c.methods[attr]
                            break
                if m is not None:
                    out.add(("FN", m.qualname, t[2]))
                else:
                    out.add(("O", "super.%s" % attr))
        return frozenset(out)

    def _class(self, q):
        try:
            return self.prog.cls(q)
        except Exception:
            return None

    def _kind_class(self, kind):
        q = KIND_CLASS.get(kind)
        if q is None and kind.startswith("CLS:"):
            q = kind[4:]
        return self._class(q) if q else None

    def e_Subscript(self, fr, e):
        base = self.expr(fr, e.value)
        idx = self.expr(fr, e.slice)
        if not isinstance(e.slice, ast.Slice):
            self.mark_scalar(idx)  # used as key / index: hashable
        key = self._key(fr, e.slice)
        out = set(self.field(base, key))
        for t in base:
            if t[0] == "K":
                r = KIND_METHOD_RET.get((t[1], "__getitem__"))
                if r:
                    out.discard(("O", "elem:%s" % t[1]))
                    out.add(r)
        if isinstance(e.slice, ast.Slice):
            # a slice is a new list holding the same elements
            return self.fresh(fr, e, "slice", {"*": frozenset(out)})
        return frozenset(out)

    def e_Slice(self, fr, e):
        for x in (e.lower, e.upper, e.step):
            if x is not None:
                self.expr(fr, x)
        return SAV

    def e_Starred(self, fr, e):
        return self.elems(self.expr(fr, e.value))

    def e_List(self, fr, e):
        return self._display(fr, e, e.elts, "list")

    e_Tuple = e_List
    e_Set = e_List

    def _display(self, fr, e, elts, kind):
        fields = {}
        for i, x in enumerate(elts):
            v = self.expr(fr, x)
            if isinstance(e, ast.Tuple):
                fields[str(i)] = fields.get(str(i), EMPTY) | v
            else:
                fields["*"] = fields.get("*", EMPTY) | v
        return self.fresh(fr, e, kind, fields)

    def e_Dict(self, fr, e):
        fields = {}
        for k, v in zip(e.keys, e.values):
            av = self.expr(fr, v)
            if k is None:
                fields["*"] = fields.get("*", EMPTY) | self.elems(av)
                continue
            self.expr(fr, k)
            key = self._key(fr, k)
            fields[key] = fields.get(key, EMPTY) | av
        return self.fresh(fr, e, "dict", fields)

    def _comp(self, fr, e, elt_fn, kind):
        saved = dict(fr.env)
        for g in e.generators:
            it = self.expr(fr, g.iter)
            self.assign(fr, g.target, self.elems(it), e)
            for c in g.ifs:
                self.expr(fr, c)
        v = elt_fn()
        fr.env = saved
        return self.fresh(fr, e, kind, {"*": v})

    def e_ListComp(self, fr, e):
        return self._comp(fr, e, lambda: self.expr(fr, e.elt), "listcomp")

    e_SetComp = e_ListComp
    e_GeneratorExp = e_ListComp

    def e_DictComp(self, fr, e):
        def elt():
            self.expr(fr, e.key)
            return self.expr(fr, e.value)
        return self._comp(fr, e, elt, "dictcomp")

    def e_BoolOp(self, fr, e):
        out = set()
        for v in e.values:
            out |= self.expr(fr, v)
        return frozenset(out)

    def e_UnaryOp(self, fr, e):
        self.expr(fr, e.operand)
        return SAV

    def e_Compare(self, fr, e):
        left = self.expr(fr, e.left)
        for op, c in zip(e.ops, e.comparators):
            v = self.expr(fr, c)
            if isinstance(op, (ast.In, ast.NotIn)):
                for t in v:
                    if t[0] == "P":
                        self.container_use.add(t[1])
            if isinstance(op, (ast.In, ast.NotIn, ast.Eq, ast.NotEq)) and v == SAV \
                    and self._is_const_strs(fr, c):
                # compared with / searched in constant strings: the value is a string
                self.mark_scalar(left)
            if isinstance(op, (ast.Lt, ast.LtE, ast.Gt, ast.GtE)):
                # ordered comparison: numbers (or strings), never containers the engine mutates
                self.mark_scalar(left)
                self.mark_scalar(v)
            left = v
        return SAV

    def _mark_path(self, path):
        if len(path) <= 1 or path in self.scalar_use:
            return
        if len(path) > 2 and path[-1] == "*" and path[-2] == "*":
            # value of a flattened mapping (e.g. node attributes): heterogeneous, evidence
            # about one member says nothing about the others
            return
        self.scalar_use.add(path)
        self.changed = True

    def mark_scalar(self, av):
        for t in av:
            if t[0] == "P":
                self._mark_path(t[1])
            elif t[0] == "F" and t[1][3] in ("list", "tuple"):
                # operands of '%': elements of the display
                for x in self.hall(t[1]):
                    if x[0] == "P":
                        self._mark_path(x[1])

    def _is_const_strs(self, fr, node):
        try:
            v = self.prog.fold(node, fr.func.module)
        except NotFoldable:
            return False
        if isinstance(v, str):
            return True
        return isinstance(v, (list, tuple, set, frozenset)) and v and all(
            isinstance(x, str) for x in v)

    def e_BinOp(self, fr, e):
        l, r = self.expr(fr, e.left), self.expr(fr, e.right)
        if isinstance(e.op, ast.Mod):
            if isinstance(e.left, ast.Constant) or l == SAV:
                self.mark_scalar(r)  # operand of string formatting
            return SAV
        if isinstance(e.op, (ast.Add, ast.Mult, ast.BitOr, ast.Sub, ast.BitAnd)):
            objs = [t for t in (l | r) if t[0] in ("P", "F", "O")]
            if not objs:
                return SAV
            return self.fresh(fr, e, "binop", {"*": self.elems(l) | self.elems(r)}) | SAV
        return SAV

    def e_IfExp(self, fr, e):
        self.expr(fr, e.test)
        return self.expr(fr, e.body) | self.expr(fr, e.orelse)

    def e_Lambda(self, fr, e):
        return frozenset([("LAM", id(e))])

    def e_NamedExpr(self, fr, e):
        v = self.expr(fr, e.value)
        self.assign(fr, e.target, v, e)
        return v

    def e_Await(self, fr, e):
        return self.expr(fr, e.value)

    def e_Yield(self, fr, e):
        if e.value is not None:
            fr.rets |= self.expr(fr, e.value)
        return SAV

    e_YieldFrom = e_Yield

    # ------------------------------------------------------------------ calls
    def e_Call(self, fr, e):
        args = []
        for a in e.args:
            if isinstance(a, ast.Starred):
                args.append(self.elems(self.expr(fr, a.value)))
            else:
                args.append(self.expr(fr, a))
        kwargs = {}
        for k in e.keywords:
            v = self.expr(fr, k.value)
            if k.arg is None:
                kwargs["**"] = kwargs.get("**", EMPTY) | self.elems(v)
            else:
                kwargs[k.arg] = v
        if (isinstance(e.func, ast.Name) and e.func.id == "zip" and len(e.args) == 1
                and isinstance(e.args[0], ast.Starred) and "zip" not in fr.env):
            return self._zip_star(fr, e, self.expr(fr, e.args[0].value))
        # method call on a container-ish receiver?
        if isinstance(e.func, ast.Attribute):
            recv = self.expr(fr, e.func.value)
            return self.call_method(fr, recv, e.func.attr, args, kwargs, e)
        fv = self.expr(fr, e.func)
        return self.call_value(fr, fv, args, kwargs, e)

    def _zip_star(self, fr, e, x):
        """zip(*rows): element i of the result is the tuple of the i-th components."""
        comps = {}
        for row in self.elems(x):
            if row[0] == "F":
                for fld, vals in self.heap.get(row[1], {}).items():
                    comps.setdefault(fld, set()).update(vals)
            else:
                comps.setdefault("*", set()).add(row)
        fields = {}
        for fld, vals in comps.items():
            col = self.fresh(fr, e, "zipcol%s" % fld, {"*": frozenset(vals)})
            fields[fld] = col
        return self.fresh(fr, e, "zipstar", fields)

    def call_method(self, fr, recv, name, args, kwargs, e):
        out = set()
        rest = set()
        for t in recv:
            k = t[0]
            if k in ("F", "S"):
                out |= self.builtin_method(fr, t, name, args, kwargs, e)
            elif k == "P" and not self._is_root(t):
                out |= self.builtin_method(fr, t, name, args, kwargs, e)
            elif k == "O":
                if name in BUILTIN_METHODS:
                    out |= self.builtin_method(fr, t, name, args, kwargs, e)
                else:
                    out |= self.cha_call(fr, t, name, args, kwargs, e)
            elif k == "K":
                if self._kind_lookup(t[1], name) is not None:
                    rest.add(t)
                elif name in BUILTIN_METHODS:
                    out |= self.builtin_method(fr, ("O", "elem:%s" % t[1]), name, args, kwargs, e)
                else:
                    out.add(("O", "%s.%s()" % (t[1], name)))
            else:
                rest.add(t)
        if rest:
            fv = self.getattr(fr, frozenset(rest), name, e.func)
            out |= self.call_value(fr, fv, args, kwargs, e)
        return frozenset(out) if out else SAV

    def _kind_lookup(self, kind, name):
        ci = self._kind_class(kind)
        return self.prog.lookup_method(ci, name) if ci else None

    def _is_root(self, t):
        return t[1] in (("WS",), ("WC",))

    def call_value(self, fr, fv, args, kwargs, e):
        out = set()
        for t in fv:
            k = t[0]
            if k == "FN":
                f = self.prog.find_function(t[1]) or self._nested(t[1])
                if f is None:
                    out.add(("O", "call:%s" % t[1]))
                    continue
                a = list(args)
                if t[2] == "closure":
                    out |= self._invoke(fr, f, a, kwargs, e, closure_env=fr.env)
                    continue
                if t[2] is not None and not f.is_staticmethod:
                    a = [frozenset([t[2]])] + a
                elif t[2] is not None:
                    pass  # a static method looked up through an instance takes no receiver
                elif f.cls is not None and not f.is_staticmethod and f.is_classmethod:
                    a = [frozenset([("C", f.cls.qualname)])] + a
                self.stats["resolved"] += 1
                r = self._invoke(fr, f, a, kwargs, e)
                if t[2] is not None and t[2][0] == "K":
                    kr = KIND_METHOD_RET.get((t[2][1], f.name))
                    if kr is not None:
                        r = frozenset([kr])
                out |= r
            elif k == "C":
                out |= self.construct(fr, t[1], args, kwargs, e)
            elif k == "B":
                out |= self.builtin_func(fr, t[1], args, kwargs, e)
            elif k == "X":
                out |= self.foreign(fr, t[1], args, kwargs, e)
            elif k == "BM":
                out |= self.builtin_method(fr, t[1], t[2], args, kwargs, e)
            elif k == "LAM":
                out.add(("O", "lambda"))
            elif k == "P":
                out.add(("O", "call-on-state"))
            elif k in ("O", "K"):
                self.stats["foreign"] += 1
                for a in list(args) + list(kwargs.values()):
                    if any(x[0] in ("P", "F") for x in a):
                        self._escape(fr, "foreign-arg", a, e, callee=str(t[1]))
                out.add(("O", "call:%s" % (t[1],)))
            elif k == "S":
                out.add(S)
        return frozenset(out) if out else SAV

    def _nested(self, q):
        for nf in self.prog.nested_functions:
            if nf.qualname == q:
                return nf
        return None

    def construct(self, fr, q, args, kwargs, e):
        if q == "conducting.WorkflowState":
            me = frozenset([("P", ("WS",))])
        elif q == "conducting.WorkflowConductor":
            me = frozenset([("P", ("WC",))])
        else:
            ci = self._class(q)
            names = [c.qualname for c in self.prog.mro(ci)] if ci else []
            if "graphing.WorkflowGraph" in names:
                return frozenset([("K", "GRAPH")])
            for kind, cq in KIND_CLASS.items():
                if cq == q:
                    return frozenset([("K", kind)])
            if any(n.startswith("events.") for n in names):
                return frozenset([("K", "EVENT:%s" % q)])
            return frozenset([("K", "CLS:%s" % q)])
        ci = self._class(q)
        init = self.prog.lookup_method(ci, "__init__")
        if init is not None:
            self._invoke(fr, init, [me] + list(args), kwargs, e)
        return me

    def cha_call(self, fr, recv, name, args, kwargs, e):
        cands = []
        label = str(recv[1]) if len(recv) > 1 else ""
        if not (label.startswith("arg:") or label.startswith("elem:") or label == "varargs"
                or label == "kwargs" or label.split(".")[0] in KIND_CLASS):
            # result of foreign code / unknown global: not a repository object
            self.stats["foreign"] += 1
            for a in list(args) + list(kwargs.values()):
                self._escape(fr, "foreign-arg", a, e, callee="%s.%s" % (label, name))
            return frozenset([("O", "call:.%s" % name)])
        for c in self.prog.all_classes():
            if c.qualname in ROOT_CLASS.values():
                continue
            if name in c.methods:
                cands.append(c.methods[name])
        if not cands:
            self.stats["foreign"] += 1
            return frozenset([("O", "call:.%s" % name)]) | (
                frozenset([recv]) if recv[0] == "O" else EMPTY)
        self.stats["cha"] += 1
        out = set()
        for f in cands:
            if f.is_staticmethod:
                a = list(args)
            else:
                a = [frozenset([recv])] + list(args)
            out |= self._invoke(fr, f, a, kwargs, e)
        return frozenset(out)

    # ------------------------------------------------------------------ builtin models
    def builtin_method(self, fr, t, name, args, kwargs, e):
        recv = frozenset([t])
        self.stats["builtin"] += 1
        a0 = args[0] if args else EMPTY
        a1 = args[1] if len(args) > 1 else EMPTY
        if t[0] == "P":
            self.container_use.add(t[1])
        if name in ("append", "add", "appendleft", "put"):
            self.store(fr, recv, "*", a0, name, e)
            return SAV
        if name == "insert":
            self.store(fr, recv, "*", a1, name, e)
            return SAV
        if name == "extend":
            self.store(fr, recv, "*", self.elems(a0), name, e)
            return SAV
        if name == "update":
            v = self.elems(a0) if args else EMPTY
            for kv in kwargs.values():
                v |= kv
            # dict.update stores the values of the argument (its fields)
            for at in a0:
                if at[0] == "F":
                    v |= self.hall(at[1])
            self.store(fr, recv, "*", v, name, e)
            return SAV
        if name == "setdefault":
            key = self._argkey(fr, e, 0)
            self.store(fr, recv, key, a1, name, e)
            return self.field(recv, key) | a1
        if name in ("pop", "popitem", "remove", "clear", "sort", "reverse", "discard"):
            key = self._argkey(fr, e, 0) if name == "pop" and args else "*"
            # dict.pop('k'): the write concerns field k; list.pop()/remove/...: the container
            constkey = key if (name == "pop" and key != "*" and not key.lstrip("-").isdigit()) else None
            self.store(fr, recv, constkey, EMPTY, name, e)
            if name == "pop":
                return self.field(recv, key) | a1
            if name == "popitem":
                return self.elems(recv)
            return SAV
        if name == "get":
            if t[0] == "F" and t[1][3] == "queue":
                return self.elems(recv)
            key = self._argkey(fr, e, 0) if args else "*"
            return self.field(recv, key) | a1 | (SAV if len(args) < 2 else EMPTY)
        if name == "items":
            pair = self.fresh(fr, e, "pair", {"0": SAV, "1": self.elems(recv)})
            return self.fresh(fr, e, "items", {"*": pair})
        if name == "values":
            return self.fresh(fr, e, "values", {"*": self.elems(recv)})
        if name == "keys":
            return self.fresh(fr, e, "keys", {"*": SAV})
        if name == "copy":
            if t[0] == "F" and t[1] in self.deep_sites:
                return recv
            if t[0] == "F":
                site = (fr.func.qualname, e.lineno, e.col_offset, "copy", fr.ctx)
                for fld, vals in list(self.heap.get(t[1], {}).items()):
                    self.hput(site, fld, frozenset(vals))
                return frozenset([("F", site)])
            return self.fresh(fr, e, "copy", {"*": self.elems(recv)})
        if name in ("union", "intersection", "difference"):
            return self.fresh(fr, e, "setop", {"*": self.elems(recv) | self.elems(a0)})
        if name in ("split", "splitlines"):
            return self.fresh(fr, e, "split", {"*": SAV})
        if t[0] == "P" and name not in READERS:
            # method of a foreign container held in the state (networkx views): some part of it
            return frozenset([self.pread(t[1] + ("*",)), S])
        return SAV

    def _argkey(self, fr, e, i):
        if i < len(e.args):
            return self._key(fr, e.args[i])
        return "*"

    def builtin_func(self, fr, name, args, kwargs, e):
        a0 = args[0] if args else EMPTY
        if name in SCALAR_FUNCS:
            if name == "len":
                for t in a0:
                    if t[0] == "P":
                        self.container_use.add(t[1])
            if name in ("str", "int", "float"):
                self.mark_scalar(a0)
            return SAV
        if name in CONTAINER_FUNCS:
            if not args:
                return self.fresh(fr, e, name, {})
            if name in ("sorted", "set", "frozenset", "reversed"):
                paths = tuple(sorted(t[1] for t in a0 if t[0] == "P"))
                if paths:
                    k = (fr.func.qualname, id(e))
                    if k not in self._order_seen:
                        self._order_seen.add(k)
                        self.order_ops.append((fr.func, e, name, paths))
            if name in ("list", "tuple") and len(a0) == 1:
                (t,) = a0
                flds = self.heap.get(t[1], {}) if t[0] == "F" else {}
                if flds and all(k.isdigit() for k in flds):
                    return self.fresh(fr, e, name, {k: frozenset(v) for k, v in flds.items()})
            return self.fresh(fr, e, name, {"*": self.elems(a0)})
        if name == "dict":
            if not args and not kwargs:
                return self.fresh(fr, e, "dict", {})
            flds = {}
            if args:
                # dict(mapping) keeps values; dict(pairs) keeps second components
                v = set(self.elems(a0))
                for t in list(v):
                    if t[0] == "F":
                        v |= self.hall(t[1])
                flds["*"] = frozenset(v)
            for k, v in kwargs.items():
                flds[k] = v
            return self.fresh(fr, e, "dict", flds)
        if name == "zip":
            flds = {str(i): self.elems(a) for i, a in enumerate(args)}
            pair = self.fresh(fr, e, "ziptuple", flds)
            return self.fresh(fr, e, "zip", {"*": pair})
        if name == "enumerate":
            pair = self.fresh(fr, e, "enumtuple", {"0": SAV, "1": self.elems(a0)})
            return self.fresh(fr, e, "enumerate", {"*": pair})
        if name == "filter":
            return self.fresh(fr, e, "filter", {"*": self.elems(args[1] if len(args) > 1 else EMPTY)})
        if name == "map":
            return self.fresh(fr, e, "map", {"*": frozenset([("O", "map")])})
        if name in ("min", "max", "next"):
            return self.elems(a0) | SAV
        if name == "getattr":
            if len(e.args) >= 2 and isinstance(e.args[1], ast.Constant):
                v = self.getattr(fr, a0, e.args[1].value, e)
                # bound builtin-method markers are not values
                v = frozenset(t for t in v if t[0] != "BM")
                return v | (args[2] if len(args) > 2 else EMPTY)
            return frozenset([("O", "getattr")]) | a0
        if name == "setattr":
            if len(e.args) >= 3 and isinstance(e.args[1], ast.Constant):
                self.store(fr, a0, e.args[1].value, args[2], "setattr", e)
            return SAV
        if name == "super":
            cls = fr.func.cls
            me = fr.env.get(fr.func.params[0]) if fr.func.params else EMPTY
            if cls is not None and me:
                return frozenset([("SUPER", cls.qualname, t) for t in me])
            return frozenset([("O", "super")])
        return frozenset([("O", "builtin:%s" % name)])

    FOREIGN_DEEP = ("ujson.loads", "copy.deepcopy", "json.loads")

    def foreign(self, fr, name, args, kwargs, e):
        self.stats["foreign"] += 1
        if name in self.FOREIGN_DEEP:
            out = self.fresh(fr, e, "deepcopy", {}, deep=True)
            # a copy has the same keys: keep the names of engine-internal keys
            (ot,) = out
            for a in args:
                for at in a:
                    if at[0] == "F":
                        for fld in list(self.heap.get(at[1], {})):
                            if isinstance(fld, str) and fld.startswith("__"):
                                self.hput(ot[1], fld, SAV)
            return out
        if name.endswith("queue.Queue") or name == "queue.Queue":
            return self.fresh(fr, e, "queue", {})
        if name in ("ujson.dumps", "json.dumps", "logging.getLogger", "re.match", "re.search",
                    "re.findall", "re.sub", "re.compile", "inspect.isclass", "inspect.isgenerator",
                    "inspect.getfullargspec", "six.text_type"):
            return SAV
        allargs = list(args) + list(kwargs.values())
        for a in allargs:
            if any(t[0] in ("P", "F") for t in a):
                self._escape(fr, "foreign-arg", a, e, callee=name)
        return frozenset([("O", "foreign:%s" % name)])

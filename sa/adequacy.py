"""Thorough tier: per-instance mutation adequacy.

Tables: for every explicit cell of both transition tables the cell is (a) deleted and (b)
retargeted to every other status, in the folded model, and the property's table rules are
re-run; a cell none of whose edits is reported is listed as not covered by the oracles (it is
not a failure: e.g. the rows before 'running' are outside the properties' quantifiers).
Code rules: every positive control whose rules intersect the property's rules is run.
"""

import copy

from sa import tables as T


def _Facts(base, wf=None, task=None):
    """A TableFacts view with one table replaced; shares the contextualiser analysis unless the
    set of task statuses (the contextualiser's input domain) changed."""
    f = T.TableFacts.__new__(T.TableFacts)
    f.__dict__.update(base.__dict__)
    if wf is not None:
        f.wf = wf
    if task is not None:
        f.task = task
        if set(f.task_statuses()) != set(base.task_statuses()):
            f._leaves = {k: v for k, v in base._leaves.items() if k != "wf.task"}
            for attr in ("_wf_task_meaning", "_wf_task_summ", "_wf_task_summ_rows"):
                f.__dict__.pop(attr, None)
    return f


def _keys(rule_fns, facts):
    out = set()
    for fn, kw in rule_fns:
        for f in fn(facts, **kw).findings:
            out.add(f.key)
    return out


_G = {}


def _cell_job(args):
    tname, row, ev = args
    facts, rule_fns, base = _G["facts"], _G["rule_fns"], _G["base"]
    table = facts.wf if tname == "wf" else facts.task
    tgt = table[row][ev]
    t2 = {r: dict(c) for r, c in table.items()}
    del t2[row][ev]
    deleted = bool(_keys(rule_fns, _Facts(facts, **{tname: t2})) - base)
    n_edits = n_det = 0
    for s in facts.ALL:
        if s == tgt or s not in table:
            continue
        t3 = {r: dict(c) for r, c in table.items()}
        t3[row][ev] = s
        n_edits += 1
        if _keys(rule_fns, _Facts(facts, **{tname: t3})) - base:
            n_det += 1
    return tname, row, ev, deleted, n_edits, n_det


def table_adequacy(ctx, rule_fns):
    """rule_fns: list of (table rule function, kwargs)."""
    import multiprocessing as mp
    facts = ctx.facts
    T.name_summaries(facts)
    T.item_summaries(facts)
    T.wf_request_meaning(facts)
    T.task_request_meaning(facts)
    base = _keys(rule_fns, facts)
    names = {fn.__name__ for fn, _ in rule_fns}
    tables = set()
    if names & {"rule_T0", "rule_T1", "rule_T5"}:
        tables |= {"wf", "task"}
    if any(n.startswith("rule_T3") for n in names):
        tables.add("wf")
    if any(n.startswith("rule_T4") for n in names):
        tables.add("task")
    jobs = []
    for tname in sorted(tables):
        table = facts.wf if tname == "wf" else facts.task
        for row, cells in table.items():
            for ev in cells:
                jobs.append((tname, row, ev))
    _G.update(facts=facts, rule_fns=rule_fns, base=base)
    report = {"tables": sorted(tables), "cells": len(jobs), "deletion_detected": 0,
              "retarget_edits": 0, "retarget_detected": 0, "cells_with_some_edit_detected": 0,
              "uncovered_cells": []}
    ctxm = mp.get_context("fork")
    with ctxm.Pool(min(16, max(1, len(jobs)))) as pool:
        for tname, row, ev, deleted, n_edits, n_det in pool.imap_unordered(_cell_job, jobs, 8):
            report["deletion_detected"] += int(deleted)
            report["retarget_edits"] += n_edits
            report["retarget_detected"] += n_det
            if deleted or n_det:
                report["cells_with_some_edit_detected"] += 1
            else:
                report["uncovered_cells"].append("%s:%s/%s" % (tname, row, ev))
    report["uncovered_cells"] = sorted(report["uncovered_cells"])[:80]
    return report


def run_controls(ctx, controls):
    out = []
    for c in controls:
        name, fired, detail = c(ctx)
        out.append({"control": name, "fired": bool(fired), "detail": detail})
    return out

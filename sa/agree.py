"""Sibling-agreement rules (Engler-style contradictions).

G1  status classification agrees: the status of a with-items item (and of a task record when it
    is classified as failed) is compared only against the named status categories of
    statuses.py; a comparison against a single member or a strict subset of ABENDED_STATUSES
    contradicts the sibling sites (task machine, rerun candidate selection, un-stage logic)
    that use the whole category.
S1b read-after-init: serialize() reads attributes that the lazy workflow_state initialiser may
    write (errors, log) only after an expression that forces the initialisation.
M1  merge order: the context index lists (ctxs.in) are merged in list order; no order-destroying
    operation (sorted, set, reversed, dedupe) is applied to them.
"""

import ast

from sa.core import AnalysisError, NotFoldable, norm_src, unparse
from sa.effects import effects_of
from sa.guards import callee_name, calls_in
from sa.report import Finding, RuleResult


def rule_G1(ctx):
    res = RuleResult("G1", "item / task failure classification uses the whole ABENDED category "
                           "everywhere (no one-sided comparison against a subset)")
    prog = ctx.prog
    abended = frozenset(prog.fold_name("statuses", "ABENDED_STATUSES"))
    active = frozenset(prog.fold_name("statuses", "ACTIVE_STATUSES"))
    cats = {}
    for name in ("ALL_STATUSES", "STARTING_STATUSES", "RUNNING_STATUSES", "ACTIVE_STATUSES",
                 "PAUSE_STATUSES", "CANCEL_STATUSES", "ABENDED_STATUSES", "COMPLETED_STATUSES"):
        cats[frozenset(prog.fold_name("statuses", name))] = name
    for short in ("conducting", "machines"):
        m = prog.module(short)
        for f in list(m.functions.values()) + [x for c in m.classes.values() for x in c.methods.values()]:
            for n in ast.walk(f.node):
                if not (isinstance(n, ast.Compare) and len(n.ops) == 1):
                    continue
                lhs = unparse(n.left)
                is_item = ("item" in lhs and "status" in lhs) or (
                    isinstance(n.left, ast.Name) and _in_items_lambda(n)) or (
                    lhs.replace('"', "'").endswith("[1]['status']") and _in_items_lambda(n, "all_items"))
                if not is_item:
                    continue
                try:
                    rhs = prog.fold(n.comparators[0], f.module)
                except NotFoldable:
                    continue
                if isinstance(rhs, str):
                    rset = frozenset([rhs])
                elif isinstance(rhs, (list, tuple, set, frozenset)):
                    rset = frozenset(rhs)
                else:
                    continue
                inst = (f.qualname, norm_src(n))
                if rset & active and not active <= rset:
                    res.violated(inst, Finding(
                        "G1", f.file, f.qualname, norm_src(n),
                        "an item status is compared with %s, which cuts across ACTIVE_STATUSES "
                        "%s: items that are %s (still at the provider) are not counted as in "
                        "flight here, unlike in the sibling sites" % (
                            sorted(rset), sorted(active), sorted(active - rset)), line=n.lineno))
                elif rset & abended and not abended <= rset:
                    res.violated(inst, Finding(
                        "G1", f.file, f.qualname, norm_src(n),
                        "an item status is compared with %s, a strict subset of ABENDED_STATUSES "
                        "%s: items that ended as %s are treated differently here than by the "
                        "task machine and the rerun selection" % (
                            sorted(rset), sorted(abended), sorted(abended - rset)), line=n.lineno))
                else:
                    res.holds(inst, cats.get(rset, "singleton/other"))
    return res


def _in_items_lambda(n, over="items_status"):
    """The comparison is the predicate of a filter(lambda ...) or of a comprehension over the
    item statuses."""
    p = getattr(n, "_parent", None)
    while p is not None and not isinstance(p, (ast.Lambda, ast.comprehension, ast.stmt)):
        p = getattr(p, "_parent", None)
    if isinstance(p, ast.Lambda):
        call = getattr(p, "_parent", None)
        return isinstance(call, ast.Call) and len(call.args) == 2 and over in unparse(call.args[1])
    if isinstance(p, ast.comprehension):
        return over in unparse(p.iter)
    return False


# ====================================================================== S1b
def _forces_init(prog, cls, expr, lazy_attr, depth=0):
    """Evaluating expr may run the lazy initialiser (reads self.<lazy property> transitively)."""
    for n in ast.walk(expr):
        if isinstance(n, ast.Attribute) and isinstance(n.value, ast.Name) and n.value.id == "self":
            if n.attr == lazy_attr:
                return True
            m = prog.lookup_method(cls, n.attr)
            if m is not None and depth < 3:
                for s in m.node.body:
                    if _forces_init(prog, cls, s, lazy_attr, depth + 1):
                        return True
    return False


def _reads_attr(prog, cls, expr, attrs, depth=0):
    out = set()
    for n in ast.walk(expr):
        if isinstance(n, ast.Attribute) and isinstance(n.value, ast.Name) and n.value.id == "self":
            if n.attr in attrs:
                out.add(n.attr)
            m = prog.lookup_method(cls, n.attr)
            if m is not None and depth < 3:
                for s in m.node.body:
                    out |= _reads_attr(prog, cls, s, attrs, depth + 1)
    return out


def rule_S1b(ctx):
    res = RuleResult("S1b", "serialize() reads what the lazy workflow_state initialiser may "
                            "write (errors, log) only after forcing the initialisation")
    prog = ctx.prog
    a = ctx.absint
    wc = prog.cls("conducting.WorkflowConductor")
    lazy = "conducting.WorkflowConductor.workflow_state"
    if lazy not in a.entry_effects:
        raise AnalysisError("lazy initialiser workflow_state vanished")
    written = {e.path[1] for e in a.entry_effects[lazy]
               if e.kind == "effect" and e.path[0] == "WC" and len(e.path) > 2}
    res.facts["written_by_lazy_init"] = sorted(written)
    ser = prog.lookup_method(wc, "serialize")
    if ser is None:
        raise AnalysisError("WorkflowConductor.serialize vanished")
    dicts = [n for n in ast.walk(ser.node) if isinstance(n, ast.Dict)]
    pairs = None
    if dicts:
        d = dicts[0]
        pairs = list(zip(d.keys, d.values))
    else:
        for n in ast.walk(ser.node):
            if isinstance(n, ast.Call) and isinstance(n.func, ast.Name) and n.func.id == "dict" \
                    and n.keywords:
                d = n
                pairs = [(ast.Constant(value=k.arg), k.value) for k in n.keywords]
                break
    if pairs is None:
        raise AnalysisError("WorkflowConductor.serialize builds no dict")
    forced = False
    # statements before the dict (e.g. state = self.workflow_state.serialize())
    for s in ser.node.body:
        if d in list(ast.walk(s)):
            break
        if _forces_init(prog, wc, s, "workflow_state"):
            forced = True
    for k, v in pairs:
        reads = _reads_attr(prog, wc, v, written)
        key = unparse(k) if k is not None else "**"
        inst = ("serialize", key)
        if reads and not forced and not _forces_init(prog, wc, v, "workflow_state"):
            res.violated(inst, Finding(
                "S1b", ser.file, ser.qualname, "value of key %s" % key,
                "%s is copied before anything in serialize() has forced the lazy workflow_state "
                "initialisation, which may still append to it (input/vars rendering errors): the "
                "persisted form of a fresh conductor lacks what the live one has" % sorted(reads),
                line=v.lineno))
        else:
            res.holds(inst)
        if _forces_init(prog, wc, v, "workflow_state"):
            forced = True
    return res


# ====================================================================== M1
ORDER_DESTROYING = ("sorted", "set", "frozenset", "reversed")


def rule_M1(ctx):
    res = RuleResult("M1", "context deltas are merged in the order of the index list: no "
                           "sorted/set/reversed/sort/reverse is applied to a ctxs.in list")
    a = ctx.absint
    n = 0
    for f, node, op, paths in getattr(a, "order_ops", []):
        hot = [p for p in paths if p[-2:] == ("ctxs", "in") or p[-3:-1] == ("ctxs", "in")]
        if not hot:
            continue
        n += 1
        res.violated((f.qualname, norm_src(node)), Finding(
            "M1", f.file, f.qualname, norm_src(node),
            "%s() is applied to the context index list %s: the arrival order of published "
            "contexts (later arrival wins) is lost" % (op, ".".join(hot[0])), line=node.lineno))
    # obligations: every place where a ctxs.in list is read into a merge / copied
    prog = ctx.prog
    gtc = prog.function("conducting.WorkflowConductor.get_task_context")
    loops = [x for x in ast.walk(gtc.node) if isinstance(x, ast.For)]
    for lp in loops:
        inst = (gtc.qualname, norm_src(lp))
        if isinstance(lp.iter, ast.Name) and lp.iter.id in gtc.params:
            res.holds(inst, "iterates the index list as given")
        else:
            res.violated(inst, Finding(
                "M1", gtc.file, gtc.qualname, norm_src(lp),
                "get_task_context does not iterate the index list as given (%s): merge order is "
                "no longer arrival order" % unparse(lp.iter), line=lp.lineno))
    if not loops:
        raise AnalysisError("get_task_context has no merge loop")
    for e in effects_of(ctx):
        if e.path[-2:] == ("ctxs", "in") or e.path[-3:-1] == ("ctxs", "in"):
            inst = ("write", ".".join(e.path), e.op, e.func.qualname, norm_src(e.node))
            if e.op in ("sort", "reverse"):
                res.violated(inst, Finding(
                    "M1", e.func.file, e.func.qualname, norm_src(e.node),
                    "%s reorders a context index list in place" % e.op, line=e.node.lineno))
            else:
                res.holds(inst)
    return res

"""Sibling-agreement rules (Engler-style contradictions).

G1  status classification agrees: the status of a with-items item (and of a task record when it
    is classified as failed) is compared only against the named status categories of
    statuses.py; a comparison against a single member or a strict subset of ABENDED_STATUSES
    contradicts the sibling sites (task machine, rerun candidate selection, un-stage logic)
    that use the whole category.
S1b read-after-init: serialize() reads attributes that the lazy workflow_state initialiser may
    write (errors, log) only after an expression that forces the initialisation.
M1  merge order: the context index lists (ctxs.in) are merged in list order; no order-destroying
    operation (sorted, set, reversed, dedupe) is applied to them.
"""

import ast

from sa.core import AnalysisError, NotFoldable, norm_src, unparse
from sa.effects import effects_of
from sa.guards import callee_name, calls_in
from sa.report import Finding, RuleResult


def rule_G1(ctx):
    res = RuleResult("G1", "item / task failure classification uses the whole ABENDED category "
                           "everywhere (no one-sided comparison against a subset)")
    prog = ctx.prog
    abended = frozenset(prog.fold_name("statuses", "ABENDED_STATUSES"))
    active = frozenset(prog.fold_name("statuses", "ACTIVE_STATUSES"))
    cats = {}
    for name in ("ALL_STATUSES", "STARTING_STATUSES", "RUNNING_STATUSES", "ACTIVE_STATUSES",
                 "PAUSE_STATUSES", "CANCEL_STATUSES", "ABENDED_STATUSES", "COMPLETED_STATUSES"):
        cats[frozenset(prog.fold_name("statuses", name))] = name
    for short in ("conducting", "machines"):
        m = prog.module(short)
        for f in [x for x in list(m.functions.values()) + [
                y for c in m.classes.values() for y in c.methods.values()]
                  if not prog.is_dead_helper(x)]:
            for n in ast.walk(f.node):
                if not (isinstance(n, ast.Compare) and len(n.ops) == 1):
                    continue
                lhs = unparse(n.left)
                is_item = ("item" in lhs and "status" in lhs) or (
                    isinstance(n.left, ast.Name) and _in_items_lambda(n)) or (
                    lhs.replace('"', "'").endswith("[1]['status']") and _in_items_lambda(n, "all_items"))
                if not is_item:
                    continue
                try:
                    rhs = prog.fold(n.comparators[0], f.module)
                except NotFoldable:
                    continue
                if isinstance(rhs, str):
                    rset = frozenset([rhs])
                elif isinstance(rhs, (list, tuple, set, frozenset)):
                    rset = frozenset(rhs)
                else:
                    continue
                inst = (f.qualname, norm_src(n))
                if rset & active and not active <= rset:
                    res.violated(inst, Finding(
                        "G1", f.file, f.qualname, norm_src(n),
                        "an item status is compared with %s, which cuts across ACTIVE_STATUSES "
                        "%s: items that are %s (still at the provider) are not counted as in "
                        "flight here, unlike in the sibling sites" % (
                            sorted(rset), sorted(active), sorted(active - rset)), line=n.lineno))
                elif rset & abended and not abended <= rset:
                    res.violated(inst, Finding(
                        "G1", f.file, f.qualname, norm_src(n),
                        "an item status is compared with %s, a strict subset of ABENDED_STATUSES "
                        "%s: items that ended as %s are treated differently here than by the "
                        "task machine and the rerun selection" % (
                            sorted(rset), sorted(abended), sorted(abended - rset)), line=n.lineno))
                else:
                    res.holds(inst, cats.get(rset, "singleton/other"))
    return res


def _in_items_lambda(n, over="items_status"):
    """The comparison is the predicate of a filter(lambda ...) or of a comprehension over the
    item statuses."""
    p = getattr(n, "_parent", None)
    while p is not None and not isinstance(p, (ast.Lambda, ast.comprehension, ast.stmt)):
        p = getattr(p, "_parent", None)
    if isinstance(p, ast.Lambda):
        call = getattr(p, "_parent", None)
        return isinstance(call, ast.Call) and len(call.args) == 2 and over in unparse(call.args[1])
    if isinstance(p, ast.comprehension):
        return over in unparse(p.iter)
    return False


# ====================================================================== S1b
def _forces_init(prog, cls, expr, lazy_attr, depth=0):
    """Evaluating expr may run the lazy initialiser (reads self.<lazy property> transitively)."""
    for n in ast.walk(expr):
        if isinstance(n, ast.Attribute) and isinstance(n.value, ast.Name) and n.value.id == "self":
            if n.attr == lazy_attr:
                return True
            m = prog.lookup_method(cls, n.attr)
            if m is not None and depth < 3:
                for s in m.node.body:
                    if _forces_init(prog, cls, s, lazy_attr, depth + 1):
                        return True
    return False


def _reads_attr(prog, cls, expr, attrs, depth=0):
    out = set()
    for n in ast.walk(expr):
        if isinstance(n, ast.Attribute) and isinstance(n.value, ast.Name) and n.value.id == "self":
            if n.attr in attrs:
                out.add(n.attr)
            m = prog.lookup_method(cls, n.attr)
            if m is not None and depth < 3:
                for s in m.node.body:
                    out |= _reads_attr(prog, cls, s, attrs, depth + 1)
    return out


def rule_S1b(ctx):
    res = RuleResult("S1b", "serialize() reads what the lazy workflow_state initialiser may "
                            "write (errors, log) only after forcing the initialisation")
    prog = ctx.prog
    a = ctx.absint
    wc = prog.cls("conducting.WorkflowConductor")
    lazy = "conducting.WorkflowConductor.workflow_state"
    if lazy not in a.entry_effects:
        raise AnalysisError("lazy initialiser workflow_state vanished")
    written = {e.path[1] for e in a.entry_effects[lazy]
               if e.kind == "effect" and e.path[0] == "WC" and len(e.path) > 2}
    res.facts["written_by_lazy_init"] = sorted(written)
    ser = prog.lookup_method(wc, "serialize")
    if ser is None:
        raise AnalysisError("WorkflowConductor.serialize vanished")
    dicts = [n for n in ast.walk(ser.node) if isinstance(n, ast.Dict)]
    pairs = None
    if dicts:
        d = dicts[0]
        pairs = list(zip(d.keys, d.values))
    else:
        for n in ast.walk(ser.node):
            if isinstance(n, ast.Call) and isinstance(n.func, ast.Name) and n.func.id == "dict" \
                    and n.keywords:
                d = n
                pairs = [(ast.Constant(value=k.arg), k.value) for k in n.keywords]
                break
    if pairs is None:
        raise AnalysisError("WorkflowConductor.serialize builds no dict")
    forced = False
    # evaluation order: the statements of serialize() one after the other; inside the statement
    # that holds the dict display, its values one after the other
    steps = []
    for s in ser.node.body:
        if d in list(ast.walk(s)):
            steps.extend(pairs)
        elif isinstance(s, ast.Return) and isinstance(s.value, ast.Name):
            continue
        else:
            key_ = None
            if isinstance(s, ast.Assign) and len(s.targets) == 1 and isinstance(
                    s.targets[0], ast.Subscript) and isinstance(s.targets[0].slice, ast.Constant):
                key_ = ast.Constant(value=s.targets[0].slice.value)
            steps.append((key_ if key_ is not None else ast.Constant(
                value="<" + norm_src(s)[:40] + ">"), s))
    for k, v in steps:
        reads = _reads_attr(prog, wc, v, written)
        key = unparse(k) if k is not None else "**"
        inst = ("serialize", key)
        if reads and not forced and not _forces_init(prog, wc, v, "workflow_state"):
            res.violated(inst, Finding(
                "S1b", ser.file, ser.qualname, "value of key %s" % key,
                "%s is copied before anything in serialize() has forced the lazy workflow_state "
                "initialisation, which may still append to it (input/vars rendering errors): the "
                "persisted form of a fresh conductor lacks what the live one has" % sorted(reads),
                line=v.lineno))
        else:
            res.holds(inst)
        if _forces_init(prog, wc, v, "workflow_state"):
            forced = True
    return res


# ====================================================================== M1
ORDER_DESTROYING = ("sorted", "set", "frozenset", "reversed")


def rule_M1(ctx):
    res = RuleResult("M1", "context deltas are merged in the order of the index list: no "
                           "sorted/set/reversed/sort/reverse is applied to a ctxs.in list")
    a = ctx.absint
    n = 0
    for f, node, op, paths in getattr(a, "order_ops", []):
        hot = [p for p in paths if p[-2:] == ("ctxs", "in") or p[-3:-1] == ("ctxs", "in")]
        if not hot:
            continue
        n += 1
        res.violated((f.qualname, norm_src(node)), Finding(
            "M1", f.file, f.qualname, norm_src(node),
            "%s() is applied to the context index list %s: the arrival order of published "
            "contexts (later arrival wins) is lost" % (op, ".".join(hot[0])), line=node.lineno))
    # obligations: every place where a ctxs.in list is read into a merge / copied
    prog = ctx.prog
    gtc0 = prog.function("conducting.WorkflowConductor.get_task_context")
    idx_param = [p_ for p_ in gtc0.params if p_ not in ("self", "cls")]
    if not idx_param:
        raise AnalysisError("get_task_context has no index-list parameter")
    # the merge loop is in get_task_context or in a function it hands the index list to
    work, seen_, found_loops = [(gtc0, idx_param[0], 0)], set(), []
    while work:
        g, pname, depth = work.pop()
        if (g.qualname, pname) in seen_ or depth > 3:
            continue
        seen_.add((g.qualname, pname))
        for x in ast.walk(g.node):
            if isinstance(x, ast.For) and any(callee_name(c) == "merge_dicts" for c in calls_in(x)):
                found_loops.append((g, x, pname))
        for c in calls_in(g.node):
            callees = a.call_edges.get((g.qualname, id(c)), set())
            for cq in callees:
                h = prog.find_function(cq)
                if h is None or cq.endswith("merge_dicts"):
                    continue
                hp = list(h.params)
                off = 1 if hp and hp[0] in ("self", "cls") and isinstance(c.func, ast.Attribute) else 0
                for i_, arg in enumerate(c.args):
                    if isinstance(arg, ast.Name) and arg.id == pname and i_ + off < len(hp):
                        work.append((h, hp[i_ + off], depth + 1))
                for kw in c.keywords:
                    if isinstance(kw.value, ast.Name) and kw.value.id == pname and kw.arg in hp:
                        work.append((h, kw.arg, depth + 1))
    for g, lp, pname in found_loops:
        inst = (g.qualname, norm_src(lp))
        it = lp.iter
        # for i in idxs  /  for i in idxs[1:]  (the first entry having been taken as the base)
        base = it.value if isinstance(it, ast.Subscript) and isinstance(it.slice, ast.Slice) \
            and it.slice.step is None else it
        if isinstance(base, ast.Name) and base.id == pname:
            res.holds(inst, "iterates the index list as given")
        else:
            res.violated(inst, Finding(
                "M1", g.file, g.qualname, norm_src(lp),
                "%s does not iterate the index list as given (%s): merge order is no longer "
                "arrival order" % (g.name, unparse(lp.iter)), line=lp.lineno))
    if not found_loops:
        raise AnalysisError("no loop that merges the context index list found from "
                            "get_task_context")
    for e in effects_of(ctx):
        if e.path[-2:] == ("ctxs", "in") or e.path[-3:-1] == ("ctxs", "in"):
            inst = ("write", ".".join(e.path), e.op, e.func.qualname, norm_src(e.node))
            if e.op in ("sort", "reverse"):
                res.violated(inst, Finding(
                    "M1", e.func.file, e.func.qualname, norm_src(e.node),
                    "%s reorders a context index list in place" % e.op, line=e.node.lineno))
            else:
                res.holds(inst)
    return res


# ====================================================================== G2
WS_PREDICATES = ("has_active_tasks", "has_pausing_tasks", "has_paused_tasks",
                 "has_canceling_tasks", "has_canceled_tasks")


def rule_G2(ctx):
    """Sibling agreement of the WorkflowState status predicates: every has_<status>_tasks
    property is 'some task's *latest* record has a status in S', i.e. it is computed through
    get_tasks_by_status (which keeps the last occurrence per task and route).  A sibling that
    scans the raw sequence counts records that a retry, a cycle or a rerun has superseded - the
    workflow machine then sees cancellations / pauses that no longer exist."""
    from sa.tables import Atomizer
    res = RuleResult("G2", "every has_<status>_tasks predicate of WorkflowState is computed from "
                           "the latest record per task (get_tasks_by_status), like its siblings")
    prog = ctx.prog
    ws = prog.cls("conducting.WorkflowState")
    mf = prog.function("machines.WorkflowStateMachine.add_context_to_workflow_event")
    az = Atomizer(ctx.facts, mf, "workflow_state", None)
    found = 0
    for name in WS_PREDICATES:
        fi = prog.lookup_method(ws, name)
        if fi is None:
            continue
        found += 1
        atom = az._ws_property(name)
        inst = (fi.qualname,)
        if atom[0] == "task_exists":
            res.holds(inst, "status in %s of the latest records" % sorted(atom[1]))
        else:
            res.violated(inst, Finding(
                "G2", fi.file, fi.qualname, "shape of %s" % name,
                "%s is not computed as 'get_tasks_by_status(S) is non-empty' like its sibling "
                "predicates: records superseded by a retry, a cycle iteration or a rerun are "
                "counted (or the status set cannot be determined)" % name, line=fi.node.lineno))
    gts = prog.lookup_method(ws, "get_tasks_by_status")
    if gts is None or found < 4:
        raise AnalysisError("WorkflowState status predicates vanished")
    # get_tasks_by_status itself keeps only the last occurrence by default
    dflt = None
    a = gts.node.args
    for p, d in zip(a.args[len(a.args) - len(a.defaults):], a.defaults):
        if p.arg == "last_occurrence":
            dflt = d
    if isinstance(dflt, ast.Constant) and dflt.value is True:
        res.holds((gts.qualname, "default"), "last_occurrence defaults to True")
    else:
        res.violated((gts.qualname, "default"), Finding(
            "G2", gts.file, gts.qualname, "default of last_occurrence",
            "get_tasks_by_status no longer restricts itself to the latest record per task by "
            "default", line=gts.node.lineno))
    return res


# ====================================================================== G3
def _key_read(e, key):
    return isinstance(e, ast.Subscript) and isinstance(e.slice, ast.Constant) and \
        e.slice.value == key and isinstance(e.value, ast.Name)


def rule_G3(ctx):
    """A record / staged entry is identified by the pair (id, route).  Wherever the engine reads
    an 'id' and a 'route' together - the two sides of one conjunction, adjacent call arguments,
    adjacent tuple elements, a task_id=/route= keyword pair - both come from the same object.
    Reading the id of one record and the route of another compares or addresses an identity
    that no record has."""
    res = RuleResult("G3", "an (id, route) pair is always read from one and the same entry")
    prog = ctx.prog
    n = 0
    for f in prog.all_functions():
        if f.module.short not in ("conducting", "machines"):
            continue
        for node in ast.walk(f.node):
            pairs = []
            if isinstance(node, ast.BoolOp) and isinstance(node.op, ast.And):
                ids = [c for v in node.values for c in ast.walk(v) if _key_read(c, "id")
                       and isinstance(getattr(c, "_parent", None), ast.Compare)]
                routes = [c for v in node.values for c in ast.walk(v) if _key_read(c, "route")
                          and isinstance(getattr(c, "_parent", None), ast.Compare)]
                if len(ids) == 1 and len(routes) == 1:
                    pairs.append((ids[0], routes[0]))
            seqs = []
            if isinstance(node, ast.Call):
                seqs.append(node.args)
                kw = {k.arg: k.value for k in node.keywords if k.arg}
                ik = kw.get("task_id", kw.get("id"))
                rk = kw.get("route", kw.get("task_route"))
                if ik is not None and rk is not None and _key_read(ik, "id") and _key_read(
                        rk, "route"):
                    pairs.append((ik, rk))
            elif isinstance(node, (ast.Tuple, ast.List)):
                seqs.append(node.elts)
            for args in seqs:
                for a, b in zip(args, args[1:]):
                    if _key_read(a, "id") and _key_read(b, "route"):
                        pairs.append((a, b))
            for a, b in pairs:
                n += 1
                stmt = node
                while not isinstance(stmt, ast.stmt):
                    stmt = stmt._parent
                inst = (f.qualname, norm_src(node)[:120], n)
                if a.value.id == b.value.id:
                    res.holds(inst)
                else:
                    res.violated(inst, Finding(
                        "G3", f.file, f.qualname, "mixed identity in " + norm_src(node)[:160],
                        "the id is read from %s but the route from %s: the pair identifies no "
                        "single record (every other site reads both from one entry)"
                        % (a.value.id, b.value.id), line=node.lineno))
    if n < 8:
        raise AnalysisError("fewer than 8 (id, route) pairs found: the rule no longer sees the "
                            "identity idiom")
    return res


# ====================================================================== S1c
RESTORERS = ("conducting.WorkflowState.deserialize", "conducting.WorkflowConductor.deserialize",
             "graphing.WorkflowGraph.deserialize")
# keys of the persisted form whose values are strings (status names, catalog / version ids)
SCALAR_KEYS = ("status", "catalog", "version")


def rule_S1c(ctx):
    """Restoration copies what it is given: in the deserialize() of the state, the conductor and
    the graph every read of the persisted document is wrapped in a deep copy, is handed to
    another restorer of this list (or to the spec's, whose definition data is immutable), or
    reads a string-valued key.  Anything else keeps nested lists / dicts of the caller's
    document alive inside the restored object: editing the document afterwards (or restoring
    it twice) changes a conductor that is already running."""
    res = RuleResult("S1c", "deserialize() of state, conductor and graph deep-copies every part "
                            "of the persisted document it keeps")
    prog = ctx.prog
    for q in RESTORERS:
        f = prog.function(q)
        params = [p for p in f.params if p not in ("cls", "self")]
        if not params:
            raise AnalysisError("%s has no data parameter" % q)
        data = params[0]
        if not any(isinstance(n, ast.Name) and n.id == data for n in ast.walk(f.node)):
            raise AnalysisError("%s never reads its data parameter" % q)
        work, seen_names = [(data, 0)], set()
        while work:
            name, depth = work.pop()
            if name in seen_names:
                continue
            seen_names.add(name)
            uses = [n for n in ast.walk(f.node) if isinstance(n, ast.Name) and n.id == name
                    and isinstance(n.ctx, ast.Load)]
            for u in uses:
                # maximal access expression  data[...][...] / data.get(...)
                top = u
                keys = []
                while True:
                    par = getattr(top, "_parent", None)
                    if isinstance(par, ast.Subscript) and par.value is top:
                        if isinstance(par.slice, ast.Constant):
                            keys.append(par.slice.value)
                        top = par
                    elif isinstance(par, ast.Attribute) and par.value is top and par.attr == "get" \
                            and isinstance(getattr(par, "_parent", None), ast.Call) \
                            and par._parent.func is par:
                        call = par._parent
                        if call.args and isinstance(call.args[0], ast.Constant):
                            keys.append(call.args[0].value)
                        top = call
                    else:
                        break
                inst = (q, norm_src(top))
                ok = None
                anc = getattr(top, "_parent", None)
                hops = 0
                while anc is not None and not isinstance(anc, ast.stmt) and hops < 6:
                    if isinstance(anc, ast.Call):
                        cn = callee_name(anc)
                        if cn == "deepcopy":
                            ok = "deep copy"
                            break
                        if cn == "deserialize":
                            ok = "delegated to %s" % unparse(anc.func)
                            break
                        gp_ = getattr(anc, "_parent", None)
                        if cn in ("dict", "copy") and isinstance(gp_, ast.Assign) and \
                                gp_.value is anc and len(gp_.targets) == 1 and isinstance(
                                gp_.targets[0], ast.Name) and depth < 3:
                            work.append((gp_.targets[0].id, depth + 1))
                            ok = "part of a shallow copy bound to local %s" % gp_.targets[0].id
                            break
                    anc = getattr(anc, "_parent", None)
                    hops += 1
                if ok is None and keys and keys[-1] in SCALAR_KEYS:
                    ok = "string-valued key %r" % keys[-1]
                if ok is None and isinstance(getattr(top, "_parent", None), ast.Compare):
                    ok = "compared only"
                par = getattr(top, "_parent", None)
                # a shallow re-wrapping of the document is still the document:  d = dict(data, ..)
                if ok is None and isinstance(par, ast.Call) and callee_name(par) in (
                        "dict", "copy") and par.args and par.args[0] is top:
                    gp = getattr(par, "_parent", None)
                    if isinstance(gp, ast.Assign) and gp.value is par and len(gp.targets) == 1 \
                            and isinstance(gp.targets[0], ast.Name) and depth < 3:
                        work.append((gp.targets[0].id, depth + 1))
                        ok = "shallow copy bound to local %s" % gp.targets[0].id
                if ok is None and depth < 3 and isinstance(par, ast.Assign) and par.value is top \
                        and len(par.targets) == 1 and isinstance(par.targets[0], ast.Name):
                    # a local alias of a part of the document: judged by its own uses
                    work.append((par.targets[0].id, depth + 1))
                    ok = "bound to local %s" % par.targets[0].id
                if ok:
                    res.holds(inst, ok)
                else:
                    res.violated(inst, Finding(
                        "S1c", f.file, f.qualname, "uncopied use of the persisted document: "
                        + norm_src(top),
                        "%s keeps %s from the caller's document without a deep copy: nested "
                        "containers stay shared between the restored object and the document "
                        "(and every other object restored from it)" % (f.name, unparse(top)),
                        line=u.lineno))
    return res


# ====================================================================== G4
def rule_G4(ctx):
    """Work-list discipline (a contradiction rule): an element is tested for membership in the
    visited list *before* it is appended to it.  `L.append(x)` directly followed by
    `if x not in L:` in the same block is a test that can never succeed - whatever it guards
    (enqueueing the element's successors) is dead, and the traversal silently stops at depth
    one.  The rerun code relies on such a traversal to find every descendant of a task."""
    res = RuleResult("G4", "no membership test on a list directly after the tested element was "
                           "appended to it (the guarded work-list step would be dead code)")
    prog = ctx.prog
    n = 0
    for f in prog.all_functions():
        if f.module.short not in ("conducting", "machines", "graphing", "composers.native",
                                  "specs.native.v1.models", "specs.base"):
            continue
        for node in ast.walk(f.node):
            for fld in ("body", "orelse", "finalbody"):
                lst = getattr(node, fld, None)
                if not (isinstance(lst, list) and lst and isinstance(lst[0], ast.stmt)):
                    continue
                for i, s in enumerate(lst):
                    if not (isinstance(s, ast.If) and isinstance(s.test, ast.Compare)
                            and len(s.test.ops) == 1 and isinstance(
                                s.test.ops[0], (ast.In, ast.NotIn))
                            and isinstance(s.test.comparators[0], ast.Name)):
                        continue
                    n += 1
                    elem, cont = unparse(s.test.left), s.test.comparators[0].id
                    inst = (f.qualname, norm_src(s.test))
                    bad = None
                    for prev in reversed(lst[:i]):
                        if isinstance(prev, ast.Expr) and isinstance(prev.value, ast.Call) and \
                                isinstance(prev.value.func, ast.Attribute) and isinstance(
                                prev.value.func.value, ast.Name) and \
                                prev.value.func.value.id == cont:
                            if prev.value.func.attr in ("append", "add") and prev.value.args \
                                    and unparse(prev.value.args[0]) == elem:
                                bad = prev
                            break  # any other mutation of the container ends the argument
                        names = {x.id for x in ast.walk(prev) if isinstance(x, ast.Name)
                                 and isinstance(x.ctx, ast.Store)}
                        if cont in names or names & {x.id for x in ast.walk(s.test.left)
                                                     if isinstance(x, ast.Name)}:
                            break
                        if not isinstance(prev, (ast.Expr, ast.Assign, ast.Pass)):
                            break
                    if bad is None:
                        res.holds(inst)
                    else:
                        always = "false" if isinstance(s.test.ops[0], ast.NotIn) else "true"
                        res.violated(inst, Finding(
                            "G4", f.file, f.qualname,
                            "membership test after append: " + norm_src(s.test),
                            "%s was appended to %s on the line before, so this test is always "
                            "%s: the guarded step (%s) %s - a work-list traversal that stops "
                            "after the first level" % (
                                elem, cont, always, norm_src(s.body[0])[:80],
                                "never runs" if always == "false" else "always runs"),
                            line=s.lineno))
    if n < 5:
        raise AnalysisError("fewer than 5 membership-guarded statements found")
    return res


# ====================================================================== G5
DICT_FIELDS = ("next", "prev", "ctxs")


def rule_G5(ctx):
    """Truth of a decision map is the truth of its values: `next` (transition id -> decided
    true/false), `prev` and `ctxs` of a record are dicts, so any()/all() applied to the field
    itself looks at the keys - non-empty strings, always true - and merely tests that the dict
    is not empty.  Every sibling site reads the values (`.values()`, `.items()`, `[k]`)."""
    res = RuleResult("G5", "any()/all() over a record's decision map looks at its values, "
                           "never at the dict itself (its keys)")
    prog = ctx.prog
    n = 0
    for f in prog.all_functions():
        if f.module.short not in ("conducting", "machines"):
            continue
        for c in calls_in(f.node):
            if isinstance(c.func, ast.Name) and c.func.id in ("any", "all") and len(c.args) == 1:
                a0 = c.args[0]
                # any(x for x in D) iterates keys as well
                src = a0
                if isinstance(a0, (ast.GeneratorExp, ast.ListComp)) and len(a0.generators) == 1 \
                        and isinstance(a0.elt, ast.Name) and isinstance(
                        a0.generators[0].target, ast.Name) and \
                        a0.elt.id == a0.generators[0].target.id and not a0.generators[0].ifs:
                    src = a0.generators[0].iter
                if isinstance(src, ast.Subscript) and isinstance(src.slice, ast.Constant) and \
                        src.slice.value in DICT_FIELDS:
                    n += 1
                    res.violated((f.qualname, norm_src(c)), Finding(
                        "G5", f.file, f.qualname, "truth of the keys: " + norm_src(c),
                        "%s() is applied to the dict %s itself: it iterates the keys (always "
                        "true), so this only tests that the map is not empty, not whether any "
                        "decision in it is true" % (c.func.id, unparse(src)), line=c.lineno))
                elif "['next']" in unparse(a0).replace('"', "'") or \
                        "['prev']" in unparse(a0).replace('"', "'"):
                    n += 1
                    res.holds((f.qualname, norm_src(c)))
    # sibling reads of the decision map (the convention the rule is inferred from)
    reads = 0
    for f in prog.all_functions():
        if f.module.short == "conducting":
            for x in ast.walk(f.node):
                if isinstance(x, ast.Call) and isinstance(x.func, ast.Attribute) and x.func.attr in (
                        "items", "values") and "['next']" in unparse(x.func.value).replace('"', "'"):
                    reads += 1
    res.facts["value_reads_of_next"] = reads
    if reads < 1 and not res.findings:
        raise AnalysisError("no read of a record's transition decisions found")
    res.holds(("convention",), "%d site(s) read the decisions through .items()/.values()" % reads)
    return res

"""CLI: python -m sa.check <ID> [--tier quick|thorough] [--repo /repo] [--replay file]

exit 0: every rule instance holds or is a listed known finding
exit 1: VIOLATION property=<id> replay=<path>  (one line per unlisted finding)
exit 2: ANALYSIS-ERROR (undecided: vanished anchor, unmodelled construct, dead control)
"""

import argparse
import hashlib
import json
import os
import sys
import time
import traceback

VERIF = os.path.dirname(os.path.dirname(os.path.abspath(__file__)))


class Ctx(object):
    """Per-run context: program model and lazily built engines."""

    def __init__(self, repo, tier, prog=None):
        from sa.core import Program
        self.repo = repo
        self.tier = tier
        self.prog = prog if prog is not None else Program(repo)
        self._cache = {}

    def get(self, key, builder):
        if key not in self._cache:
            self._cache[key] = builder()
        return self._cache[key]

    @property
    def facts(self):
        from sa.tables import TableFacts
        return self.get("facts", lambda: TableFacts(self.prog))

    @property
    def absint(self):
        from sa.absint import Analysis
        return self.get("absint", lambda: Analysis(self.prog).run())

    def derive(self, prog):
        return Ctx(self.repo, self.tier, prog=prog)


def run_property(pid, tier, repo, replay=None, quiet=False):
    from sa import props
    from sa.core import AnalysisError
    from sa.report import KnownFindings

    t0 = time.time()
    spec = props.PROPERTIES.get(pid)
    if spec is None:
        print("ANALYSIS-ERROR unknown or unclaimed property %s" % pid)
        return 2
    out = []
    say = out.append
    try:
        ctx = Ctx(repo, tier)
        missing = [m for m in spec.get("anchor_modules", []) if m not in ctx.prog.by_short]
        if missing:
            raise AnalysisError("anchored module(s) vanished: %s" % missing)
        results = []
        for rule in spec["rules"]:
            results.append(rule(ctx))
        if tier == "thorough":
            for rule in spec.get("thorough_rules", []):
                results.append(rule(ctx))
        # instance floors
        for r in results:
            floor = props.FLOORS.get(r.rule)
            if floor is not None and not getattr(r, 'scoped', False) and not r.findings \
                    and r.n < floor:
                raise AnalysisError(
                    "rule %s enumerated %d instance(s), below the confirmed floor %d: the rule "
                    "no longer sees the code it is meant to check" % (r.rule, r.n, floor))
        # positive controls
        controls = []
        dead_controls = []
        for ctl in spec.get("controls", []):
            name, fired, detail = ctl(ctx)
            controls.append({"control": name, "fired": bool(fired), "detail": detail})
            if not fired:
                dead_controls.append("positive control %s did not fire: %s" % (name, detail))
        adequacy = None
        if tier == "thorough" and spec.get("adequacy"):
            adequacy = spec["adequacy"](ctx)
    except AnalysisError as e:
        print("\n".join(out))
        print("ANALYSIS-ERROR property=%s %s" % (pid, e))
        return 2
    except Exception:
        print("\n".join(out))
        traceback.print_exc()
        print("ANALYSIS-ERROR property=%s uncaught exception in the checker" % pid)
        return 2

    kf = KnownFindings(os.path.join(VERIF, "known_findings.json"))
    violations, known = [], []
    seen = set()
    for r in results:
        for f in r.findings:
            if f.key in seen:
                continue
            seen.add(f.key)
            e = kf.match(pid, f)
            if e is not None:
                known.append((f, e))
            else:
                violations.append(f)
    n_ctl = len(spec.get("controls", []))
    if dead_controls and not violations and (len(dead_controls) * 2 > n_ctl):
        # A control that cannot produce a *new* finding because the rule already reports the
        # tree itself is not a dead control (unlisted violations win, like with the floors).
        # A single control can also stop firing because a refactoring made its canonical edit
        # harmless on this tree (e.g. it removes a copy that has become redundant): that is
        # recorded in the evidence; only when most controls of the property are dead is the
        # analysis itself in doubt.
        print("\n".join(out))
        print("ANALYSIS-ERROR property=%s %s" % (pid, dead_controls[0]))
        return 2
    for dc in dead_controls:
        say("note: %s (recorded; the other controls of %s fired)" % (dc, pid))
    if replay:
        want = json.load(open(replay)).get("key")
        violations = [f for f in violations if list(f.key) == want]
        known = [(f, e) for f, e in known if list(f.key) == want]

    for r in results:
        say("rule %-8s %4d instance(s) %4d hold  %s" % (r.rule, r.n, r.n_holds, r.title))
        for n in r.notes:
            say("      note: %s" % n)
    printed = set()
    for f, e in known:
        if e["id"] in printed:
            continue
        printed.add(e["id"])
        say("KNOWN-FINDING: property=%s %s [%s] %s" % (pid, e["id"], f.rule, e["summary"]))
    replay_dir = os.path.join(os.environ.get("SA_EVIDENCE_DIR") or os.path.join(VERIF, "evidence"),
                              "replay")
    for f in violations:
        os.makedirs(replay_dir, exist_ok=True)
        dg = hashlib.sha1(repr(f.key).encode()).hexdigest()[:10]
        path = os.path.join(replay_dir, "%s-%s-%s.json" % (pid, f.rule, dg))
        with open(path, "w") as fh:
            json.dump({"property": pid, "key": list(f.key), "finding": f.to_json(),
                       "replay_cmd": "/venv/bin/python -m sa.check %s --tier %s --replay %s"
                                     % (pid, tier, path)}, fh, indent=1)
        say(f.text())
        say("VIOLATION property=%s replay=%s" % (pid, path))

    wall = time.time() - t0
    if not replay:
        write_evidence(pid, spec, ctx, results, violations, known, controls, adequacy, tier, wall)
    if not quiet:
        print("\n".join(out))
        print("%s %s tier=%s rules=%d instances=%d violations=%d known=%d wall=%.2fs" % (
            "FAIL" if violations else "OK", pid, tier, len(results),
            sum(r.n for r in results), len(violations), len(known), wall))
    return 1 if violations else 0


def write_evidence(pid, spec, ctx, results, violations, known, controls, adequacy, tier, wall):
    insts = []
    for r in results:
        for inst, status, detail in r.instances:
            insts.append((r.rule, inst, status))
    distinct = len({(a, repr(b)) for a, b, _ in insts})
    samples = []
    for r in results:
        for inst, status, detail in r.instances[:3]:
            samples.append({"rule": r.rule, "instance": repr(inst), "status": status,
                            "detail": detail})
    facts = {}
    for r in results:
        for k, v in r.facts.items():
            facts["%s.%s" % (r.rule, k)] = v
    n_obl = len(insts)
    n_dis = sum(1 for i in insts if i[2] == "HOLDS")
    cov = {
        "explanation": spec["explanation"],
        "rule": "one obligation per rule instance (table cell x generable event, write site, "
                "call chain, guard set ...) enumerated from the parsed source of /repo on this "
                "run; distinct = distinct (rule, instance) pairs; all are non-trivial in the "
                "sense that each names a concrete construct of the analysed tree",
        "obligations": n_obl,
        "discharged": n_dis,
        "evaluations": max(n_obl, 1),
        "distinct_nontrivial": max(distinct, 0),
        "exhaustive": bool(spec.get("exhaustive", False)),
        "samples": samples or [{"note": "no instances"}],
        "rules": [{"rule": r.rule, "title": r.title, "instances": r.n, "hold": r.n_holds,
                   "notes": r.notes} for r in results],
        "modules_parsed": len(ctx.prog.modules),
        "functions_analysed": sum(1 for _ in ctx.prog.all_functions()),
        "source_digest": ctx.prog.source_digest,
        "known_findings_matched": sorted({e["id"] for _, e in known}),
        "controls_fired": controls,
        "facts": facts,
        "violation_details": [f.to_json() for f in violations],
    }
    if adequacy is not None:
        cov["mutation_adequacy"] = adequacy
    ev = {
        "property_id": pid,
        "tier": tier,
        "seed": int(os.environ.get("VERIF_SEED", "0") or 0),
        "level": "other",
        "coverage": cov,
        "assumptions": spec.get("assumptions", []),
        "wall_s": round(wall, 3),
        "violations": len(violations),
    }
    d = os.environ.get("SA_EVIDENCE_DIR") or os.path.join(VERIF, "evidence")
    os.makedirs(d, exist_ok=True)
    tmp = os.path.join(d, ".%s.json.tmp" % pid)
    with open(tmp, "w") as fh:
        json.dump(ev, fh, indent=1, sort_keys=True, default=_default)
    os.replace(tmp, os.path.join(d, "%s.json" % pid))


def _default(o):
    if isinstance(o, (set, frozenset)):
        return sorted(map(str, o))
    return repr(o)


def main(argv=None):
    ap = argparse.ArgumentParser()
    ap.add_argument("property")
    ap.add_argument("--tier", default=os.environ.get("VERIF_TIER") or "quick",
                    choices=["quick", "thorough"])
    ap.add_argument("--repo", default=os.environ.get("VERIF_REPO", "/repo"))
    ap.add_argument("--replay", default=None)
    a = ap.parse_args(argv)
    return run_property(a.property, a.tier, a.repo, a.replay)


if __name__ == "__main__":
    sys.exit(main())

"""Positive controls: canonical breaking edits applied in memory on every run.

Each control edits a deep copy of the parsed tree (never /repo), re-parses it into a fresh
Program, re-runs the rule through the same code path and requires a finding.  A control whose
edit cannot be applied to the current tree is reported as skipped (fired=True, detail says so)
unless it is the only evidence that a rule is alive.
"""

from sa import mutate as M
from sa import tables as T


def _fired(results, rules=None):
    n = 0
    for r in results:
        if rules is None or r.rule in rules:
            n += len(r.findings)
    return n


def _baseline_keys(ctx, rule_fns):
    keys = set()
    for fn in rule_fns:
        for f in fn(ctx.facts).findings:
            keys.add(f.key)
    return keys


def _new_findings(ctx, prog2, rule_fns):
    base = _baseline_keys(ctx, rule_fns)
    c2 = ctx.derive(prog2)
    out = []
    for fn in rule_fns:
        for f in fn(c2.facts).findings:
            if f.key not in base:
                out.append(f)
    return out


def _pick_cell(ctx, row, pred):
    facts = ctx.facts
    summ = T.name_summaries(facts)
    for name, tgt in facts.wf.get(row, {}).items():
        if name in summ and pred(name, tgt, summ[name]):
            return name, tgt
    return None, None


def ctl_wf_inflight_to_resting(ctx):
    """Retarget a cell of row running whose event is generated with an action in flight to
    'paused': T3a must report it."""
    name, tgt = _pick_cell(ctx, "running", lambda n, t, s: s["all_inflight"] and t not in T.RESTING)
    if name is None:
        return ("wf_inflight_to_resting", True, "skipped: no suitable cell")
    try:
        p2 = M.set_cell(ctx.prog, "WORKFLOW_STATE_MACHINE_DATA", "running", name, "paused")
    except M.EditFailed as e:
        return ("wf_inflight_to_resting", True, "skipped: %s" % e)
    new = _new_findings(ctx, p2, [T.rule_T3a])
    return ("wf_inflight_to_resting", bool(new),
            "running/%s -> paused: %d new finding(s)" % (name, len(new)))


def ctl_wf_drop_failed_cell(ctx):
    """Delete the cell of row pausing for an unhandled failure: T3d must report it."""
    name, tgt = _pick_cell(ctx, "pausing", lambda n, t, s: s["some_unhandled_failure"])
    if name is None:
        return ("wf_drop_failed_cell", True, "skipped: no suitable cell")
    try:
        p2 = M.drop_cell(ctx.prog, "WORKFLOW_STATE_MACHINE_DATA", "pausing", name)
    except M.EditFailed as e:
        return ("wf_drop_failed_cell", True, "skipped: %s" % e)
    new = _new_findings(ctx, p2, [T.rule_T3d])
    return ("wf_drop_failed_cell", bool(new), "drop pausing/%s: %d new finding(s)" % (name, len(new)))


def ctl_wf_drop_dormant_cell(ctx):
    """Delete a cell of row running for an event generated with nothing in flight and no work
    left: T3b must report it."""
    name, tgt = _pick_cell(ctx, "running", lambda n, t, s: s["some_dormant_nowork"])
    if name is None:
        return ("wf_drop_dormant_cell", True, "skipped: no suitable cell")
    try:
        p2 = M.drop_cell(ctx.prog, "WORKFLOW_STATE_MACHINE_DATA", "running", name)
    except M.EditFailed as e:
        return ("wf_drop_dormant_cell", True, "skipped: %s" % e)
    new = _new_findings(ctx, p2, [T.rule_T3b])
    return ("wf_drop_dormant_cell", bool(new), "drop running/%s: %d new finding(s)" % (name, len(new)))


def ctl_wf_canceling_to_succeeded(ctx):
    name, tgt = _pick_cell(ctx, "canceling", lambda n, t, s: s["some_dormant"] and t == "canceled")
    if name is None:
        return ("wf_canceling_to_succeeded", True, "skipped: no suitable cell")
    try:
        p2 = M.set_cell(ctx.prog, "WORKFLOW_STATE_MACHINE_DATA", "canceling", name, "succeeded")
    except M.EditFailed as e:
        return ("wf_canceling_to_succeeded", True, "skipped: %s" % e)
    new = _new_findings(ctx, p2, [T.rule_T3e, T.rule_T3f])
    return ("wf_canceling_to_succeeded", bool(new),
            "canceling/%s -> succeeded: %d new finding(s)" % (name, len(new)))


def ctl_task_active_completes(ctx):
    """Retarget a with-items cell generated with an item in flight to 'succeeded'."""
    facts = ctx.facts
    summ = T.item_summaries(facts)
    pick = None
    for name, tgt in facts.task.get("running", {}).items():
        if name in summ and not summ[name]["plain"] and summ[name]["all_item_inflight"]:
            pick = name
            break
    if pick is None:
        return ("task_active_completes", True, "skipped: no suitable cell")
    try:
        p2 = M.set_cell(ctx.prog, "TASK_STATE_MACHINE_DATA", "running", pick, "succeeded")
    except M.EditFailed as e:
        return ("task_active_completes", True, "skipped: %s" % e)
    new = _new_findings(ctx, p2, [T.rule_T4a, T.rule_T4b])
    return ("task_active_completes", bool(new),
            "running/%s -> succeeded: %d new finding(s)" % (pick, len(new)))


# ---------------------------------------------------------------------- effect / ownership
def _edit_control(ctx, name, relpath, qual, pred, repl, rule_fns, limit=1, what=""):
    """Apply an AST edit inside definition `qual`, re-run rule_fns (ctx -> RuleResult) and
    require a finding that the unedited tree does not have."""
    try:
        p2 = M.rewrite_in(ctx.prog, relpath, qual, pred, repl, limit=limit)
    except M.EditFailed as e:
        return (name, True, "skipped: %s" % e)
    base = set()
    for fn in rule_fns:
        for f in fn(ctx).findings:
            base.add(f.key)
    c2 = ctx.derive(p2)
    new = []
    for fn in rule_fns:
        for f in fn(c2).findings:
            if f.key not in base:
                new.append(f)
    return (name, bool(new), "%s: %d new finding(s)%s" % (
        what or name, len(new), (" e.g. " + new[0].rule + " " + new[0].construct[:60]) if new else ""))


COND = "orquesta/conducting.py"
MACH = "orquesta/machines.py"


def ctl_drop_ctx_copy(ctx):
    from sa import effects as E
    pred, repl = M.unwrap_call("deepcopy")
    return _edit_control(ctx, "drop_ctx_copy", COND, "WorkflowConductor.get_task_context", pred, repl,
                         [E.rule_O2, E.rule_F2, E.rule_F5],
                         what="merge stored context deltas without copying")


def ctl_share_record_lists(ctx):
    from sa import effects as E
    pred, repl = M.unwrap_call("deepcopy")
    return _edit_control(ctx, "share_record_lists", COND, "WorkflowConductor.add_task_state", pred, repl,
                         [E.rule_O1], what="record created from the staged entry's own lists")


def ctl_sequence_insert(ctx):
    import ast
    from sa import effects as E

    def pred(n):
        return (isinstance(n, ast.Call) and isinstance(n.func, ast.Attribute)
                and n.func.attr == "append" and "sequence" in ast.unparse(n.func.value))

    def repl(n):
        n.func.attr = "insert"
        n.args = [ast.Constant(value=0)] + n.args
        return n

    return _edit_control(ctx, "sequence_insert", COND, "WorkflowConductor.add_task_state", pred, repl,
                         [E.rule_F1], what="record inserted at the front of the sequence")


def ctl_serialize_no_copy(ctx):
    from sa import effects as E
    pred, repl = M.unwrap_call("deepcopy")
    return _edit_control(ctx, "serialize_no_copy", COND, "WorkflowState.serialize", pred, repl,
                         [E.rule_O3], what="serialize returns a live container")


def ctl_drop_restore_of_attr(ctx):
    import ast
    from sa import effects as E

    def pred(n):
        return (isinstance(n, ast.Assign) and len(n.targets) == 1
                and isinstance(n.targets[0], ast.Attribute) and n.targets[0].attr == "reruns")

    return _edit_control(ctx, "drop_restore_of_attr", COND, "WorkflowState.deserialize", pred,
                         lambda n: None, [E.rule_S1], what="deserialize no longer restores reruns")


def ctl_drop_join_check(ctx):
    import ast
    from sa import effects as E

    def pred(n):
        return isinstance(n, ast.If) and "get_unreachable_barriers" in ast.unparse(n) and \
            "SUCCEEDED" in ast.unparse(n.test)

    return _edit_control(ctx, "drop_join_check", MACH, "WorkflowStateMachine.process_workflow_event",
                         pred, lambda n: None, [E.rule_F7],
                         what="resume completion without the unreachable-join check")


def ctl_unvalidated_status_write(ctx):
    import ast
    from sa import effects as E

    def pred(n):
        return isinstance(n, ast.If) and "is_transition_valid" in ast.unparse(n.test)

    return _edit_control(ctx, "unvalidated_status_write", COND, "WorkflowConductor._set_workflow_status",
                         pred, lambda n: None, [E.rule_F4], what="status setter without validation")


def ctl_concurrency_not_clamped(ctx):
    """Drop the normalisation of concurrency <= 0."""
    import ast
    from sa import paths as P

    def pred(n):
        return isinstance(n, ast.If) and "concurrency" in ast.unparse(n.test) and any(
            isinstance(o, (ast.LtE, ast.Lt)) for x in ast.walk(n.test)
            if isinstance(x, ast.Compare) for o in x.ops)

    return _edit_control(ctx, "concurrency_not_clamped", COND,
                         "WorkflowConductor._evaluate_task_actions", pred, lambda n: None,
                         [P.rule_P8], what="with-items window without the concurrency clamp")


def ctl_input_default_on_falsy(ctx):
    """render_input that falls back to the default for any falsy runtime value."""
    import ast
    from sa import purity as PU

    def pred(n):
        return isinstance(n, ast.Call) and isinstance(n.func, ast.Attribute) and \
            n.func.attr == "get" and len(n.args) == 2 and "runtime_inputs" in ast.unparse(n.func)

    def repl(n):
        dflt = n.args.pop()
        return ast.BoolOp(op=ast.Or(), values=[n, dflt])

    return _edit_control(ctx, "input_default_on_falsy", "orquesta/specs/native/v1/models.py",
                         "WorkflowSpec.render_input", pred, repl, [PU.rule_V1],
                         what="input default chosen by the runtime value")


def ctl_validate_prefilter(ctx):
    """expressions.base.validate that skips strings without a YAQL delimiter."""
    import ast
    from sa import speccov as SC

    def pred(n):
        return isinstance(n, ast.Call) and isinstance(n.func, ast.Attribute) and \
            n.func.attr == "has_expressions" and isinstance(getattr(n, "_parent", None),
                                                            ast.comprehension)

    def repl(n):
        return ast.BoolOp(op=ast.And(), values=[
            ast.parse("'<%' in statement", mode="eval").body, n])

    return _edit_control(ctx, "validate_prefilter", "orquesta/expressions/base.py", "validate",
                         pred, repl, [SC.rule_S6], what="validate() pre-filters the text")


def ctl_route_without_append(ctx):
    """Allocate the route index without appending the new route."""
    import ast
    from sa import paths as P

    def pred(n):
        return isinstance(n, ast.Expr) and isinstance(n.value, ast.Call) and isinstance(
            n.value.func, ast.Attribute) and n.value.func.attr == "append" and \
            ast.unparse(n.value.func.value).endswith(".routes")

    return _edit_control(ctx, "route_without_append", COND, "WorkflowConductor._evaluate_route",
                         pred, lambda n: None, [P.rule_P9], what="route index without the append")


def ctl_falsy_result_dropped(ctx):
    """make_task_result that replaces a falsy result by None."""
    import ast
    from sa import purity as PU

    def pred(n):
        return isinstance(n, ast.Assign) and isinstance(n.value, ast.Attribute) and \
            n.value.attr == "result"

    def repl(n):
        n.value = ast.BoolOp(op=ast.Or(), values=[n.value, ast.Constant(value=None)])
        return n

    return _edit_control(ctx, "falsy_result_dropped", COND, "WorkflowConductor.make_task_result",
                         pred, repl, [PU.rule_V2], what="falsy task result replaced")


def ctl_predicate_over_raw_sequence(ctx):
    """has_canceled_tasks computed over the raw sequence."""
    import ast
    from sa import agree as G

    def pred(n):
        return isinstance(n, ast.Return)

    def repl(n):
        n.value = ast.parse("any(t.get('status') == statuses.CANCELED for t in self.sequence)",
                            mode="eval").body
        return n

    return _edit_control(ctx, "predicate_over_raw_sequence", COND, "WorkflowState.has_canceled_tasks",
                         pred, repl, [G.rule_G2], what="status predicate over superseded records")


def ctl_mixed_identity(ctx):
    """get_task_sequence comparing the parent's id with the child's route."""
    import ast
    from sa import agree as G

    def pred(n):
        return isinstance(n, ast.Subscript) and isinstance(n.slice, ast.Constant) and \
            n.slice.value == "route" and isinstance(n.value, ast.Name) and n.value.id == "p"

    def repl(n):
        n.value = ast.Name(id="t", ctx=ast.Load())
        return n

    return _edit_control(ctx, "mixed_identity", COND, "WorkflowState.get_task_sequence",
                         pred, repl, [G.rule_G3], what="id and route read from different records")


def ctl_term_only_if_task_completed(ctx):
    """Terminal mark only for a reporting task that is itself completed."""
    import ast
    from sa import paths as P

    def pred(n):
        return isinstance(n, ast.If) and "get_workflow_status" in ast.unparse(n.test) and any(
            isinstance(x, ast.Assign) and "'term'" in ast.unparse(x.targets[0]) for x in n.body)

    def repl(n):
        n.test = ast.BoolOp(op=ast.And(), values=[
            ast.parse("new_task_status in statuses.COMPLETED_STATUSES", mode="eval").body, n.test])
        return n

    return _edit_control(ctx, "term_only_if_task_completed", COND,
                         "WorkflowConductor.update_task_state", pred, repl, [P.rule_P10],
                         what="terminal mark with an extra condition")


def ctl_override_on_canceled(ctx):
    """Unreachable-join override of process_workflow_event widened to every completed status."""
    import ast
    from sa import effects as E

    def pred(n):
        return isinstance(n, ast.If) and "get_unreachable_barriers" in ast.unparse(n) and \
            "SUCCEEDED" in ast.unparse(n.test)

    def repl(n):
        n.test = ast.parse("workflow_state.status in statuses.COMPLETED_STATUSES", mode="eval").body
        return n

    return _edit_control(ctx, "override_on_canceled", MACH,
                         "WorkflowStateMachine.process_workflow_event", pred, repl, [E.rule_F10],
                         what="unreachable-join override applied to a canceled workflow")


def ctl_has_expressions_ignores_blocks(ctx):
    """JinjaEvaluator.has_expressions that no longer looks for {% %} blocks."""
    import ast
    from sa import speccov as SC

    def pred(n):
        return isinstance(n, ast.Assign) and "_regex_block_parser" in ast.unparse(n.value)

    def repl(n):
        n.value = ast.List(elts=[], ctx=ast.Load())
        return n

    return _edit_control(ctx, "has_expressions_ignores_blocks", "orquesta/expressions/jinja.py",
                         "JinjaEvaluator.has_expressions", pred, repl, [SC.rule_S7],
                         what="has_expressions without the block recogniser")


def ctl_graph_restore_without_copy(ctx):
    """WorkflowGraph.deserialize that keeps the caller's document."""
    from sa import agree as G
    pred, repl = M.unwrap_call("deepcopy")
    return _edit_control(ctx, "graph_restore_without_copy", "orquesta/graphing.py",
                         "WorkflowGraph.deserialize", pred, repl, [G.rule_S1c],
                         what="graph restored from the caller's document without a copy")


def ctl_append_before_membership_test(ctx):
    """get_task_sequence that records a descendant before asking whether it is new."""
    import ast
    from sa import agree as G

    def editor(tree):
        d = M.find_def(tree, "WorkflowState.get_task_sequence")
        done = False
        for node in ast.walk(d):
            for fld in ("body", "orelse"):
                lst = getattr(node, fld, None)
                if not isinstance(lst, list):
                    continue
                for i, st in enumerate(lst):
                    if isinstance(st, ast.If) and isinstance(st.test, ast.Compare) and isinstance(
                            st.test.ops[0], ast.NotIn) and st.body and isinstance(
                            st.body[0], ast.Expr) and isinstance(st.body[0].value, ast.Call) \
                            and getattr(st.body[0].value.func, "attr", "") == "append" and not done:
                        app = st.body.pop(0)
                        if not st.body:
                            st.body.append(ast.Pass())
                        lst.insert(i, app)
                        done = True
                        break
        if not done:
            raise M.EditFailed("no 'if x not in seq: seq.append(x)' step in get_task_sequence")

    try:
        p2 = M.apply(ctx.prog, COND, editor)
    except M.EditFailed as e:
        return ("append_before_membership_test", True, "skipped: %s" % e)
    base = {f.key for f in G.rule_G4(ctx).findings}
    new = [f for f in G.rule_G4(ctx.derive(p2)).findings if f.key not in base]
    return ("append_before_membership_test", bool(new),
            "descendant appended before the visited test: %d new finding(s)" % len(new))


def ctl_merge_skips_none(ctx):
    """merge_dicts that does not overwrite with None."""
    import ast
    from sa import purity as PU

    def pred(n):
        return isinstance(n, ast.If) and isinstance(n.test, ast.Name) and any(
            isinstance(x, ast.Assign) for x in n.body)

    def repl(n):
        n.test = ast.BoolOp(op=ast.And(), values=[n.test, ast.parse("v is not None", mode="eval").body])
        return n

    return _edit_control(ctx, "merge_skips_none", "orquesta/utils/dictionary.py", "merge_dicts",
                         pred, repl, [PU.rule_O7], what="value-dependent overwrite in merge_dicts")


def ctl_silent_noop_request(ctx):
    """Drop the final rejecting raise of request_workflow_status."""
    import ast
    from sa import requests as RQ

    def pred(n):
        return isinstance(n, ast.If) and any(isinstance(x, ast.Raise) for x in n.body) and \
            "InvalidWorkflowStatusTransition" in ast.unparse(n)

    return _edit_control(ctx, "silent_noop_request", COND, "WorkflowConductor.request_workflow_status",
                         pred, lambda n: None, [RQ.rule_F9],
                         what="status request without the rejecting raise")


def ctl_rerun_write_before_reject(ctx):
    """Move the second validation of request_workflow_rerun after the first write."""
    import ast
    from sa import effects as E

    def editor(tree):
        d = M.find_def(tree, "WorkflowConductor.request_workflow_rerun")
        idx = [i for i, s in enumerate(d.body) if isinstance(s, ast.If) and any(
            isinstance(x, ast.Raise) for x in ast.walk(s))]
        if len(idx) < 2:
            raise M.EditFailed("request_workflow_rerun has fewer than two rejecting checks")
        chk = d.body.pop(idx[1])
        d.body.append(chk)

    try:
        p2 = M.apply(ctx.prog, COND, editor)
    except M.EditFailed as e:
        return ("rerun_write_before_reject", True, "skipped: %s" % e)
    base = {f.key for f in E.rule_F6(ctx).findings}
    new = [f for f in E.rule_F6(ctx.derive(p2)).findings if f.key not in base]
    return ("rerun_write_before_reject", bool(new),
            "rerun validation moved after the writes: %d new finding(s)" % len(new))


# ---------------------------------------------------------------------- exception rules
def ctl_narrow_next_tasks_handler(ctx):
    """get_next_tasks catches only KeyError instead of Exception: rendering failures escape."""
    import ast
    from sa import excs as X

    def pred(n):
        return isinstance(n, ast.ExceptHandler) and n.type is not None and \
            ast.unparse(n.type) == "Exception"

    def repl(n):
        n.type = ast.Name(id="KeyError", ctx=ast.Load())
        return n

    return _edit_control(ctx, "narrow_next_tasks_handler", COND, "WorkflowConductor.get_next_tasks",
                         pred, repl, [X.rule_X2], what="get_next_tasks catches KeyError only")


def ctl_unwrap_criteria_try(ctx):
    import ast
    from sa import excs as X

    def pred(n):
        return isinstance(n, ast.Try) and "criteria" in ast.unparse(n.body[0])

    return _edit_control(ctx, "unwrap_criteria_try", COND, "WorkflowConductor.update_task_state",
                         pred, lambda n: n.body, [X.rule_X2],
                         what="transition criteria evaluated outside the try")


def ctl_unwrap_evaluator_try(ctx):
    import ast
    from sa import excs as X

    def pred(n):
        return isinstance(n, ast.Try)

    return _edit_control(ctx, "unwrap_evaluator_try", "orquesta/expressions/yql.py",
                         "YAQLEvaluator.evaluate", pred, lambda n: n.body, [X.rule_X1],
                         what="YAQL evaluation outside the converting try")


def ctl_handler_without_fail(ctx):
    """The criteria handler logs but no longer fails the workflow."""
    import ast
    from sa import excs as X

    def pred(n):
        return isinstance(n, ast.Expr) and M.is_call_to(n.value, "request_workflow_status") and \
            isinstance(getattr(n, "_parent", None), ast.AST)

    def editor(tree):
        d = M.find_def(tree, "WorkflowConductor.update_task_state")
        n = 0
        for h in ast.walk(d):
            if isinstance(h, ast.ExceptHandler):
                keep = [s for s in h.body if not (isinstance(s, ast.Expr) and M.is_call_to(
                    s.value, "request_workflow_status"))]
                if len(keep) != len(h.body):
                    h.body[:] = keep or [ast.Pass()]
                    n += 1
        if not n:
            raise M.EditFailed("no handler requests failed")

    try:
        p2 = M.apply(ctx.prog, COND, editor)
    except M.EditFailed as e:
        return ("handler_without_fail", True, "skipped: %s" % e)
    base = {f.key for f in X.rule_X3(ctx).findings}
    new = [f for f in X.rule_X3(ctx.derive(p2)).findings if f.key not in base]
    return ("handler_without_fail", bool(new), "handler no longer fails the workflow: %d new" % len(new))


# ---------------------------------------------------------------------- path rules
def _ctl_paths(ctx, name, relpath, qual, pred, repl, rules, what):
    return _edit_control(ctx, name, relpath, qual, pred, repl, rules, what=what)


def ctl_offer_completed_entries(ctx):
    import ast
    from sa import paths as P

    def pred(n):
        return isinstance(n, ast.comprehension) and n.ifs and "completed" in ast.unparse(n.ifs[0])

    def repl(n):
        n.ifs = [n.ifs[0].values[0]] if isinstance(n.ifs[0], ast.BoolOp) else []
        return n

    return _ctl_paths(ctx, "offer_completed_entries", COND, "WorkflowState.get_staged_tasks", pred,
                      repl, [P.rule_P1], "staged filter without the completed flag")


def ctl_drop_offer_gate(ctx):
    import ast
    from sa import paths as P

    def pred(n):
        return isinstance(n, ast.If) and "RUNNING_STATUSES" in ast.unparse(n.test)

    return _ctl_paths(ctx, "drop_offer_gate", COND, "WorkflowConductor.get_next_tasks", pred,
                      lambda n: None, [P.rule_P2], "offers without the status gate")


def ctl_stage_without_criteria(ctx):
    import ast
    from sa import paths as P

    def pred(n):
        return isinstance(n, ast.If) and ast.unparse(n.test).replace('"', "'") == \
            "task_state_entry['next'][task_transition_id]"

    def repl(n):
        n.test = ast.Constant(value=True)
        return n

    return _ctl_paths(ctx, "stage_without_criteria", COND, "WorkflowConductor.update_task_state",
                      pred, repl, [P.rule_P3], "next task staged whatever the criteria")


def ctl_keep_started_task_staged(ctx):
    import ast
    from sa import paths as P

    def pred(n):
        return isinstance(n, ast.If) and "remove_staged_task" in ast.unparse(n) and \
            "items" in ast.unparse(n.test)

    return _ctl_paths(ctx, "keep_started_task_staged", COND, "WorkflowConductor.update_task_state",
                      pred, lambda n: None, [P.rule_P4], "started task not removed from staging")


def ctl_join_always_ready(ctx):
    import ast
    from sa import paths as P

    def pred(n):
        return isinstance(n, ast.Assign) and "['ready']" in ast.unparse(n.targets[0]).replace('"', "'")

    def repl(n):
        n.value = ast.Constant(value=True)
        return n

    return _ctl_paths(ctx, "join_always_ready", COND, "WorkflowConductor.update_task_state", pred,
                      repl, [P.rule_P5], "ready flag no longer computed from inbound criteria")


def ctl_retry_off_by_one(ctx):
    import ast
    from sa import paths as P

    def pred(n):
        return isinstance(n, ast.Compare) and len(n.ops) == 1 and isinstance(n.ops[0], ast.GtE) \
            and "tally" in ast.unparse(n)

    def repl(n):
        n.ops = [ast.Gt()]
        return n

    return _ctl_paths(ctx, "retry_off_by_one", COND, "WorkflowConductor._evaluate_task_retry", pred,
                      repl, [P.rule_P6], "retry bound tally > count")


def ctl_join_threshold(ctx):
    import ast
    from sa import paths as P

    def pred(n):
        return isinstance(n, ast.Compare) and len(n.ops) == 1 and isinstance(n.ops[0], ast.GtE) \
            and "count(True)" in ast.unparse(n)

    def repl(n):
        n.ops = [ast.Gt()]
        return n

    return _ctl_paths(ctx, "join_threshold", COND, "WorkflowConductor.get_inbound_criteria_status",
                      pred, repl, [P.rule_P7], "join threshold > instead of >=")


# ---------------------------------------------------------------------- E7 / U1 / S2 / S3
MODELS = "orquesta/specs/native/v1/models.py"


def ctl_unguarded_staged_deref(ctx):
    """_request_task_rerun pops 'completed' from the staged entry without testing it."""
    import ast
    from sa import optional as O

    def pred(n):
        return isinstance(n, ast.If) and isinstance(n.test, ast.Name) and n.test.id == "staged_task"

    return _edit_control(ctx, "unguarded_staged_deref", COND, "WorkflowConductor._request_task_rerun",
                         pred, lambda n: n.body, [O.rule_E7],
                         what="staged entry dereferenced without the presence test")


def ctl_unguarded_task_name(ctx):
    import ast
    from sa import optional as O

    def pred(n):
        return isinstance(n, ast.If) and ast.unparse(n.test) == "task_name not in self"

    return _edit_control(ctx, "unguarded_task_name", MODELS, "TaskMappingSpec.detect_unreachable_tasks",
                         pred, lambda n: None, [O.rule_U1],
                         what="undefined task names reach is_split_task/in_cycle")


def ctl_drop_detector(ctx):
    import ast
    from sa import speccov as S

    def pred(n):
        return isinstance(n, ast.Expr) and "detect_undefined_tasks" in ast.unparse(n)

    return _edit_control(ctx, "drop_detector", MODELS, "TaskMappingSpec.inspect_semantics", pred,
                         lambda n: None, [S.rule_S2], what="undefined-task detector not run")


def ctl_untracked_property(ctx):
    import ast
    from sa import speccov as S

    def editor(tree):
        c = M.find_def(tree, "TaskSpec")
        for s_ in c.body:
            if isinstance(s_, ast.Assign) and isinstance(s_.targets[0], ast.Name) and \
                    s_.targets[0].id == "_context_evaluation_sequence":
                s_.value.elts = [e for e in s_.value.elts if e.value != "input"]
                return
        raise M.EditFailed("no _context_evaluation_sequence in TaskSpec")

    try:
        p2 = M.apply(ctx.prog, MODELS, editor)
    except M.EditFailed as e:
        return ("untracked_property", True, "skipped: %s" % e)
    base = {f.key for f in S.rule_S3(ctx).findings}
    new = [f for f in S.rule_S3(ctx.derive(p2)).findings if f.key not in base]
    return ("untracked_property", bool(new), "TaskSpec.input untracked: %d new finding(s)" % len(new))


# ---------------------------------------------------------------------- purity / order
def ctl_persist_internal_ctx(ctx):
    import ast
    from sa import purity as PU

    def pred(n):
        return (isinstance(n, ast.Call) and isinstance(n.func, ast.Attribute) and n.func.attr == "append"
                and "contexts" in ast.unparse(n.func.value) and n.args
                and isinstance(n.args[0], ast.Name) and n.args[0].id == "new_ctx")

    def repl(n):
        n.args = [ast.Name(id="current_ctx", ctx=ast.Load())]
        return n

    return _edit_control(ctx, "persist_internal_ctx", COND, "WorkflowConductor.update_task_state",
                         pred, repl, [PU.rule_O5], what="task context with __ internals persisted")


def ctl_ctx_unfiltered(ctx):
    import ast
    from sa import purity as PU

    def pred(n):
        return isinstance(n, ast.DictComp)

    def repl(n):
        for g in n.generators:
            g.ifs = []
        return n

    return _edit_control(ctx, "ctx_unfiltered", "orquesta/expressions/functions/common.py", "ctx_",
                         pred, repl, [PU.rule_O6], what="ctx() returns internals")


def ctl_yaql_raw_context(ctx):
    from sa import purity as PU
    pred, repl = M.unwrap_call("convert_input_data")
    return _edit_control(ctx, "yaql_raw_context", "orquesta/expressions/yql.py",
                         "YAQLEvaluator.contextualize", pred, repl, [PU.rule_O4],
                         what="YAQL gets the caller's dict itself")


def ctl_partial_sort_of_set(ctx):
    import ast
    from sa import order as OR

    def pred(n):
        return isinstance(n, ast.Lambda) and isinstance(n.body, ast.Tuple)

    def repl(n):
        n.body = n.body.elts[0]
        return n

    return _edit_control(ctx, "partial_sort_of_set", "orquesta/expressions/base.py", "extract_vars",
                         pred, repl, [OR.rule_N1], what="set of tuples sorted by one component")


def ctl_unsorted_start_tasks(ctx):
    from sa import order as OR
    pred, repl = M.unwrap_call("sorted")
    return _edit_control(ctx, "unsorted_start_tasks", MODELS, "TaskMappingSpec.get_start_tasks",
                         pred, repl, [OR.rule_N2], what="start tasks in declaration order")


# ---------------------------------------------------------------------- V3 / G6 / J1
def ctl_join_by_truth(ctx):
    """is_join_task decides by the truth of the declared join instead of its presence."""
    import ast
    from sa import shape as SH

    def pred(n):
        return isinstance(n, ast.Compare) and len(n.ops) == 1 and isinstance(
            n.ops[0], ast.IsNot) and "join" in ast.unparse(n.left)

    def repl(n):
        return ast.Call(func=ast.Name(id="bool", ctx=ast.Load()), args=[n.left], keywords=[])

    return _edit_control(ctx, "join_by_truth", MODELS, "TaskMappingSpec.is_join_task", pred, repl,
                         [SH.rule_V3], what="join presence decided by truthiness")


def ctl_conditional_edge_lookup(ctx):
    """the composer looks an edge up only on some visits."""
    import ast
    from sa import shape as SH

    def pred(n):
        return isinstance(n, ast.Assign) and isinstance(n.value, ast.Call) and \
            isinstance(n.value.func, ast.Attribute) and n.value.func.attr == "has_transition"

    def repl(n):
        n.value = ast.BoolOp(op=ast.And(), values=[ast.Name(id="splits", ctx=ast.Load()), n.value])
        return n

    return _edit_control(ctx, "conditional_edge_lookup", "orquesta/composers/native.py",
                         "WorkflowComposer._compose_wf_graph", pred, repl, [SH.rule_G6],
                         what="edge look-up skipped on some visits")


def ctl_render_every_string(ctx):
    """the raw-block re-render of JinjaEvaluator.evaluate loses its `and raw_blocks` gate."""
    import ast
    from sa import shape as SH

    def pred(n):
        return isinstance(n, ast.If) and isinstance(n.test, ast.BoolOp) and \
            "raw_blocks" in ast.unparse(n.test) and "isinstance" in ast.unparse(n.test)

    def repl(n):
        n.test = n.test.values[0]
        return n

    return _edit_control(ctx, "render_every_string", "orquesta/expressions/jinja.py",
                         "JinjaEvaluator.evaluate", pred, repl, [SH.rule_J1],
                         what="template render of every string result")


# ---------------------------------------------------------------------- P14 / F12
def _is_machine_stmt(n):
    import ast
    return isinstance(n, ast.Expr) and isinstance(n.value, ast.Call) and \
        "TaskStateMachine.process_event" in ast.unparse(n.value.func)


def ctl_swallow_report(ctx):
    """update_task_state returns silently for some reports before the task machine."""
    import ast
    from sa import paths as P

    def repl(n):
        guard = ast.parse("if event.status in statuses.STARTING_STATUSES and "
                          "self.get_workflow_status() == statuses.CANCELED:\n    return None").body[0]
        return [guard, n]

    return _edit_control(ctx, "swallow_report", COND, "WorkflowConductor.update_task_state",
                         _is_machine_stmt, repl, [P.rule_P14], what="report dropped without error")


def ctl_fail_on_machine_error(ctx):
    """an error of the task machine is converted into a failed-workflow request."""
    import ast
    from sa import paths as P

    def repl(n):
        t = ast.parse("try:\n    pass\nexcept Exception as e:\n"
                      "    self.request_workflow_status(statuses.FAILED)\n"
                      "    return task_state_entry").body[0]
        t.body = [n]
        return t

    return _edit_control(ctx, "fail_on_machine_error", COND, "WorkflowConductor.update_task_state",
                         _is_machine_stmt, repl, [P.rule_F12],
                         what="machine error converted into a workflow failure")


# ---------------------------------------------------------------------- F13 / F14 / M2 / P15
def ctl_render_on_completion(ctx):
    """update_task_state renders the workflow output on its own at the end."""
    import ast
    from sa import shape as SH

    def pred(n):
        return isinstance(n, ast.Return) and isinstance(n.value, ast.Name) and \
            n.value.id == "task_state_entry"

    def repl(n):
        return [ast.parse("self.render_workflow_output()").body[0], n]

    return _edit_control(ctx, "render_on_completion", COND, "WorkflowConductor.update_task_state",
                         pred, repl, [SH.rule_F13], what="output rendered by the conductor itself")


def ctl_clear_staging_on_request(ctx):
    """request_workflow_status removes staged entries."""
    import ast
    from sa import shape as SH

    def pred(n):
        return isinstance(n, ast.Expr) and isinstance(n.value, ast.Call) and \
            "WorkflowStateMachine.process_event" in ast.unparse(n.value.func)

    def repl(n):
        loop = ast.parse("for entry in list(self.workflow_state.staged):\n"
                         "    self.workflow_state.staged.remove(entry)").body[0]
        return [n, loop]

    return _edit_control(ctx, "clear_staging_on_request", COND,
                         "WorkflowConductor.request_workflow_status", pred, repl, [SH.rule_F14],
                         what="staged entries removed outside a report")


def ctl_filter_published_delta(ctx):
    """the stored delta is filtered against the current context."""
    import ast
    from sa import shape as SH

    def pred(n):
        return isinstance(n, ast.If) and isinstance(n.test, ast.Name) and n.test.id == "new_ctx"

    def repl(n):
        flt = ast.parse("new_ctx = {k: v for k, v in new_ctx.items() if current_ctx.get(k) != v}").body[0]
        return [flt, n]

    return _edit_control(ctx, "filter_published_delta", COND, "WorkflowConductor.update_task_state",
                         pred, repl, [SH.rule_M2], what="published delta filtered by value")


def ctl_skip_transitions_when_canceling(ctx):
    """the transitions of a completed task are not evaluated while canceling."""
    import ast
    from sa import shape as SH

    def pred(n):
        return isinstance(n, ast.If) and "COMPLETED_STATUSES" in ast.unparse(n.test) and \
            "old_task_status" in ast.unparse(n.test)

    def repl(n):
        extra = ast.parse("self.get_workflow_status() not in statuses.CANCEL_STATUSES",
                          mode="eval").body
        n.test = ast.BoolOp(op=ast.And(), values=[n.test, extra])
        return n

    return _edit_control(ctx, "skip_transitions_when_canceling", COND,
                         "WorkflowConductor.update_task_state", pred, repl, [SH.rule_P15],
                         what="transitions skipped under an extra condition")


def ctl_reuse_retry_entry(ctx):
    """add_task_state evaluates the retry entry only for the first record of a task."""
    import ast
    from sa import shape as SH

    def pred(n):
        return isinstance(n, ast.If) and "task_has_retry" in ast.unparse(n.test)

    def repl(n):
        extra = ast.parse("not self.get_task_state_entry(task_id, route)", mode="eval").body
        n.test = ast.BoolOp(op=ast.And(), values=[n.test, extra])
        return n

    return _edit_control(ctx, "reuse_retry_entry", COND, "WorkflowConductor.add_task_state",
                         pred, repl, [SH.rule_P16], what="retry entry not evaluated for later records")


def ctl_stale_retry_delay(ctx):
    """the retry delay of an offer is kept in a local that survives into the next iteration."""
    import ast
    from sa import shape as SH

    def pred(n):
        return isinstance(n, ast.For) and any(
            isinstance(x, ast.If) and ast.unparse(x.test).replace('"', "'") == "'retry' in staged_task"
            for x in ast.walk(n))

    def repl(n):
        for x in ast.walk(n):
            for fld in ("body", "orelse"):
                lst = getattr(x, fld, None)
                if not isinstance(lst, list):
                    continue
                for i, st in enumerate(lst):
                    if isinstance(st, ast.If) and ast.unparse(st.test).replace(
                            '"', "'") == "'retry' in staged_task":
                        setter = ast.parse("if 'retry' in staged_task:\n"
                                           "    retry_delay = staged_task['retry'].get('delay') or 0").body[0]
                        user = ast.parse("if retry_delay is not None:\n"
                                         "    next_task['delay'] = retry_delay").body[0]
                        lst[i:i + 1] = [setter, user]
                        init = ast.parse("retry_delay = None").body[0]
                        return [init, n]
        return n

    return _edit_control(ctx, "stale_retry_delay", COND, "WorkflowConductor.get_next_tasks",
                         pred, repl, [SH.rule_G7], what="retry delay carried over to the next offer")


def ctl_shared_transition_ctx(ctx):
    """the transitions of a task are finalised against one shared context object."""
    import ast
    from sa import shape as SH

    def pred(n):
        return isinstance(n, ast.Call) and isinstance(n.func, ast.Attribute) and \
            n.func.attr == "finalize_context"

    def repl(n):
        n.args = [a.args[0] if isinstance(a, ast.Call) and isinstance(a.func, ast.Attribute)
                  and a.func.attr == "deepcopy" and a.args else a for a in n.args]
        return n

    return _edit_control(ctx, "shared_transition_ctx", COND, "WorkflowConductor.update_task_state",
                         pred, repl, [SH.rule_M3], what="finalize_context without a fresh copy")

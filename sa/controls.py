"""Positive controls: canonical breaking edits applied in memory on every run.

Each control edits a deep copy of the parsed tree (never /repo), re-parses it into a fresh
Program, re-runs the rule through the same code path and requires a finding.  A control whose
edit cannot be applied to the current tree is reported as skipped (fired=True, detail says so)
unless it is the only evidence that a rule is alive.
"""

from sa import mutate as M
from sa import tables as T


def _fired(results, rules=None):
    n = 0
    for r in results:
        if rules is None or r.rule in rules:
            n += len(r.findings)
    return n


def _baseline_keys(ctx, rule_fns):
    keys = set()
    for fn in rule_fns:
        for f in fn(ctx.facts).findings:
            keys.add(f.key)
    return keys


def _new_findings(ctx, prog2, rule_fns):
    base = _baseline_keys(ctx, rule_fns)
    c2 = ctx.derive(prog2)
    out = []
    for fn in rule_fns:
        for f in fn(c2.facts).findings:
            if f.key not in base:
                out.append(f)
    return out


def _pick_cell(ctx, row, pred):
    facts = ctx.facts
    summ = T.name_summaries(facts)
    for name, tgt in facts.wf.get(row, {}).items():
        if name in summ and pred(name, tgt, summ[name]):
            return name, tgt
    return None, None


def ctl_wf_inflight_to_resting(ctx):
    """Retarget a cell of row running whose event is generated with an action in flight to
    'paused': T3a must report it."""
    name, tgt = _pick_cell(ctx, "running", lambda n, t, s: s["all_inflight"] and t not in T.RESTING)
    if name is None:
        return ("wf_inflight_to_resting", True, "skipped: no suitable cell")
    try:
        p2 = M.set_cell(ctx.prog, "WORKFLOW_STATE_MACHINE_DATA", "running", name, "paused")
    except M.EditFailed as e:
        return ("wf_inflight_to_resting", True, "skipped: %s" % e)
    new = _new_findings(ctx, p2, [T.rule_T3a])
    return ("wf_inflight_to_resting", bool(new),
            "running/%s -> paused: %d new finding(s)" % (name, len(new)))


def ctl_wf_drop_failed_cell(ctx):
    """Delete the cell of row pausing for an unhandled failure: T3d must report it."""
    name, tgt = _pick_cell(ctx, "pausing", lambda n, t, s: s["some_unhandled_failure"])
    if name is None:
        return ("wf_drop_failed_cell", True, "skipped: no suitable cell")
    try:
        p2 = M.drop_cell(ctx.prog, "WORKFLOW_STATE_MACHINE_DATA", "pausing", name)
    except M.EditFailed as e:
        return ("wf_drop_failed_cell", True, "skipped: %s" % e)
    new = _new_findings(ctx, p2, [T.rule_T3d])
    return ("wf_drop_failed_cell", bool(new), "drop pausing/%s: %d new finding(s)" % (name, len(new)))


def ctl_wf_drop_dormant_cell(ctx):
    """Delete a cell of row running for an event generated with nothing in flight and no work
    left: T3b must report it."""
    name, tgt = _pick_cell(ctx, "running", lambda n, t, s: s["some_dormant_nowork"])
    if name is None:
        return ("wf_drop_dormant_cell", True, "skipped: no suitable cell")
    try:
        p2 = M.drop_cell(ctx.prog, "WORKFLOW_STATE_MACHINE_DATA", "running", name)
    except M.EditFailed as e:
        return ("wf_drop_dormant_cell", True, "skipped: %s" % e)
    new = _new_findings(ctx, p2, [T.rule_T3b])
    return ("wf_drop_dormant_cell", bool(new), "drop running/%s: %d new finding(s)" % (name, len(new)))


def ctl_wf_canceling_to_succeeded(ctx):
    name, tgt = _pick_cell(ctx, "canceling", lambda n, t, s: s["some_dormant"] and t == "canceled")
    if name is None:
        return ("wf_canceling_to_succeeded", True, "skipped: no suitable cell")
    try:
        p2 = M.set_cell(ctx.prog, "WORKFLOW_STATE_MACHINE_DATA", "canceling", name, "succeeded")
    except M.EditFailed as e:
        return ("wf_canceling_to_succeeded", True, "skipped: %s" % e)
    new = _new_findings(ctx, p2, [T.rule_T3e, T.rule_T3f])
    return ("wf_canceling_to_succeeded", bool(new),
            "canceling/%s -> succeeded: %d new finding(s)" % (name, len(new)))


def ctl_task_active_completes(ctx):
    """Retarget a with-items cell generated with an item in flight to 'succeeded'."""
    facts = ctx.facts
    summ = T.item_summaries(facts)
    pick = None
    for name, tgt in facts.task.get("running", {}).items():
        if name in summ and not summ[name]["plain"] and summ[name]["all_item_inflight"]:
            pick = name
            break
    if pick is None:
        return ("task_active_completes", True, "skipped: no suitable cell")
    try:
        p2 = M.set_cell(ctx.prog, "TASK_STATE_MACHINE_DATA", "running", pick, "succeeded")
    except M.EditFailed as e:
        return ("task_active_completes", True, "skipped: %s" % e)
    new = _new_findings(ctx, p2, [T.rule_T4a, T.rule_T4b])
    return ("task_active_completes", bool(new),
            "running/%s -> succeeded: %d new finding(s)" % (pick, len(new)))

"""E1 - program model and constant folder.

Parses every non-test module of the repository, resolves imports, builds class / function
tables and folds module-level constants (status lists, event names, the two transition
tables, spec class attributes) from the AST alone.
"""

import ast
import copy
import hashlib
import os
import re


class AnalysisError(Exception):
    """Raised when the analysis cannot decide (vanished anchor, unmodelled construct)."""


class NotFoldable(Exception):
    pass


class ClassRef(object):
    """Folded value of a name that denotes a repository class."""

    def __init__(self, qualname):
        self.qualname = qualname

    def __repr__(self):
        return "ClassRef(%s)" % self.qualname

    def __eq__(self, other):
        return isinstance(other, ClassRef) and other.qualname == self.qualname

    def __hash__(self):
        return hash(("ClassRef", self.qualname))


class Opaque(object):
    """Folded value of an expression the folder does not model (partial folding only)."""

    def __init__(self, src):
        self.src = src

    def __repr__(self):
        return "Opaque(%s)" % self.src


_SHARED = (ast.expr_context, ast.operator, ast.boolop, ast.unaryop, ast.cmpop)


def set_parents(tree):
    """Parent links and a document-order index (_ord) for every node.  _ord, not lineno, is
    what ordering rules compare: inlined statements keep the line numbers of the helper they
    came from."""
    counter = [0]

    def visit(node, parent):
        if isinstance(node, _SHARED):
            return  # context / operator nodes are singletons shared by the whole tree
        node._parent = parent
        node._ord = counter[0]
        counter[0] += 1
        for child in ast.iter_child_nodes(node):
            visit(child, node)

    visit(tree, None)


_TREE_CACHE = {}
_PRIVATE_METHOD_RE = re.compile(r"^[ \t]+def (_[A-Za-z0-9][A-Za-z0-9_]*)\(", re.M)


def unparse(node):
    try:
        return ast.unparse(node)
    except Exception:  # pragma: no cover
        return "<%s>" % type(node).__name__


class FuncInfo(object):
    def __init__(self, module, node, cls=None, outer=None):
        self.module = module
        self.node = node
        self.cls = cls
        self.outer = outer
        self.name = node.name
        prefix = module.short
        if cls is not None:
            prefix += "." + cls.name
        if outer is not None:
            prefix = outer.qualname
        self.qualname = prefix + "." + node.name
        self.decorators = [unparse(d) for d in node.decorator_list]
        self.is_classmethod = "classmethod" in self.decorators
        self.is_staticmethod = "staticmethod" in self.decorators
        self.is_property = "property" in self.decorators
        self.params = [a.arg for a in node.args.posonlyargs + node.args.args]
        self.kwonly = [a.arg for a in node.args.kwonlyargs]
        self.vararg = node.args.vararg.arg if node.args.vararg else None
        self.kwarg = node.args.kwarg.arg if node.args.kwarg else None

    @property
    def file(self):
        return self.module.relpath

    def __repr__(self):
        return "<Func %s>" % self.qualname


class ClassInfo(object):
    def __init__(self, module, node):
        self.module = module
        self.node = node
        self.name = node.name
        self.qualname = module.short + "." + node.name
        self.methods = {}
        self.attrs = {}  # class-level name -> value node (last assignment)
        self.base_exprs = list(node.bases)
        self.bases = []  # resolved ClassInfo objects (repository classes only)
        self.foreign_bases = []

    def __repr__(self):
        return "<Class %s>" % self.qualname


INLINE_PREFIXES = ("conducting", "machines", "specs", "composers", "expressions", "graphing",
                   "events", "statuses", "utils")


class Module(object):
    def __init__(self, name, path, relpath, src, inline=False, no_inline=frozenset()):
        self.name = name
        # short name: module path below "orquesta." (e.g. "conducting", "specs.native.v1.models")
        self.short = name[len("orquesta."):] if name.startswith("orquesta.") else name
        self.path = path
        self.relpath = relpath
        self.src = src
        do_inline = bool(inline and self.short.split(".")[0] in INLINE_PREFIXES)
        ck = (hashlib.sha1(src.encode()).hexdigest(), do_inline, no_inline)
        if ck in _TREE_CACHE:
            self.raw_tree, self.tree, self.n_inlined = _TREE_CACHE[ck]
        else:
            self.raw_tree = ast.parse(src, filename=path)
            self.tree = self.raw_tree
            self.n_inlined = 0
            if do_inline and ("def " in src):
                from sa.inline import inline_tree
                t2, n = inline_tree(self.raw_tree, no_inline)
                if n:
                    self.tree, self.n_inlined = t2, n
            set_parents(self.raw_tree)
            if self.tree is not self.raw_tree:
                set_parents(self.tree)
            _TREE_CACHE[ck] = (self.raw_tree, self.tree, self.n_inlined)
        self.imports = {}  # local name -> ("module", modname) | ("attr", modname, attr)
        self.bindings = {}  # name -> list of (kind, node) module-level definitions in order
        self.classes = {}
        self.functions = {}
        self._collect()

    def _collect(self):
        for stmt in self.tree.body:
            self._collect_stmt(stmt)

    def _collect_stmt(self, stmt):
        if isinstance(stmt, ast.Import):
            for a in stmt.names:
                if a.asname:
                    self.imports[a.asname] = ("module", a.name)
                else:
                    self.imports[a.name.split(".")[0]] = ("module", a.name.split(".")[0])
        elif isinstance(stmt, ast.ImportFrom):
            mod = stmt.module or ""
            for a in stmt.names:
                self.imports[a.asname or a.name] = ("attr", mod, a.name)
        elif isinstance(stmt, ast.Assign):
            for t in stmt.targets:
                if isinstance(t, ast.Name):
                    self.bindings.setdefault(t.id, []).append(("assign", stmt.value))
                elif isinstance(t, ast.Subscript):
                    base = t
                    while isinstance(base, ast.Subscript):
                        base = base.value
                    if isinstance(base, ast.Name):
                        self.bindings.setdefault(base.id, []).append(("setitem", stmt))
        elif isinstance(stmt, ast.AugAssign) and isinstance(stmt.target, ast.Name):
            self.bindings.setdefault(stmt.target.id, []).append(("augassign", stmt))
        elif isinstance(stmt, ast.Expr) and isinstance(stmt.value, ast.Call):
            f = stmt.value.func
            if isinstance(f, ast.Attribute) and isinstance(f.value, ast.Name):
                self.bindings.setdefault(f.value.id, []).append(("method", stmt.value))
        elif isinstance(stmt, ast.ClassDef):
            ci = ClassInfo(self, stmt)
            self.classes[stmt.name] = ci
            self.bindings.setdefault(stmt.name, []).append(("class", ci))
            for s in stmt.body:
                if isinstance(s, (ast.FunctionDef, ast.AsyncFunctionDef)):
                    ci.methods[s.name] = FuncInfo(self, s, cls=ci)
                elif isinstance(s, ast.Assign):
                    for t in s.targets:
                        if isinstance(t, ast.Name):
                            ci.attrs[t.id] = s.value
        elif isinstance(stmt, (ast.FunctionDef, ast.AsyncFunctionDef)):
            fi = FuncInfo(self, stmt)
            self.functions[stmt.name] = fi
            self.bindings.setdefault(stmt.name, []).append(("func", fi))
        elif isinstance(stmt, (ast.If, ast.Try)):
            # module-level conditionals: collect both arms (none in the engine today)
            for s in ast.iter_child_nodes(stmt):
                if isinstance(s, ast.stmt):
                    self._collect_stmt(s)


class Program(object):
    """All non-test modules under <repo>/orquesta."""

    def __init__(self, repo, overrides=None, inline=True):
        self.repo = os.path.abspath(repo)
        self.inline = inline
        self.modules = {}
        self.by_short = {}
        self.by_relpath = {}
        overrides = overrides or {}
        root = os.path.join(self.repo, "orquesta")
        if not os.path.isdir(root):
            raise AnalysisError("no orquesta package under %s" % self.repo)
        digest = hashlib.sha256()
        sources = []
        for dirpath, dirnames, filenames in sorted(os.walk(root)):
            dirnames.sort()
            rel = os.path.relpath(dirpath, self.repo)
            parts = rel.split(os.sep)
            if "tests" in parts or "__pycache__" in parts:
                dirnames[:] = []
                continue
            for fn in sorted(filenames):
                if not fn.endswith(".py"):
                    continue
                path = os.path.join(dirpath, fn)
                relpath = os.path.relpath(path, self.repo)
                if relpath in overrides:
                    src = overrides[relpath]
                else:
                    with open(path, "r", encoding="utf-8") as fh:
                        src = fh.read()
                sources.append((path, relpath, src))
        # private method names defined by more than one class anywhere: `self._h()` may
        # dispatch to an override, so such helpers are never inlined
        seen_defs = {}
        for _p, _r, src in sources:
            for nm in _PRIVATE_METHOD_RE.findall(src):
                seen_defs[nm] = seen_defs.get(nm, 0) + 1
        no_inline = frozenset(n for n, c in seen_defs.items() if c > 1)
        for path, relpath, src in sources:
            if True:
                digest.update(relpath.encode())
                digest.update(b"\0")
                digest.update(src.encode())
                modparts = relpath[:-3].split(os.sep)
                if modparts[-1] == "__init__":
                    modparts = modparts[:-1]
                name = ".".join(modparts)
                try:
                    m = Module(name, path, relpath, src, inline=inline, no_inline=no_inline)
                except SyntaxError as e:
                    raise AnalysisError("cannot parse %s: %s" % (relpath, e))
                self.modules[name] = m
                self.by_short[m.short] = m
                self.by_relpath[relpath] = m
        self.source_digest = digest.hexdigest()
        self._fold_cache = {}
        self._resolve_classes()
        self._collect_nested()

    # ------------------------------------------------------------------ lookup helpers
    def module(self, short):
        m = self.by_short.get(short)
        if m is None:
            raise AnalysisError("anchor module vanished: orquesta.%s" % short)
        return m

    def function(self, qualname):
        """'conducting.WorkflowConductor.get_next_tasks' or 'utils.dictionary.merge_dicts'."""
        f = self.find_function(qualname)
        if f is None:
            raise AnalysisError("anchor function vanished: %s" % qualname)
        return f

    def find_function(self, qualname):
        parts = qualname.split(".")
        for i in range(len(parts) - 1, 0, -1):
            mod = self.by_short.get(".".join(parts[:i]))
            if mod is None:
                continue
            rest = parts[i:]
            if len(rest) == 1:
                return mod.functions.get(rest[0])
            if len(rest) == 2 and rest[0] in mod.classes:
                return self.lookup_method(mod.classes[rest[0]], rest[1])
        return None

    def cls(self, qualname):
        parts = qualname.split(".")
        mod = self.by_short.get(".".join(parts[:-1]))
        if mod is None or parts[-1] not in mod.classes:
            raise AnalysisError("anchor class vanished: %s" % qualname)
        return mod.classes[parts[-1]]

    def all_functions(self, include_dead=False):
        """Functions of the analysed program.  Private helpers that the inlining pass has
        expanded at every one of their call sites are skipped unless asked for: their bodies
        live on inside their callers, and analysing the orphaned definition as well would
        report everything twice (once without the caller's guards)."""
        for m in self.modules.values():
            for f in m.functions.values():
                if include_dead or not self.is_dead_helper(f):
                    yield f
            for c in m.classes.values():
                for f in c.methods.values():
                    if include_dead or not self.is_dead_helper(f):
                        yield f
        for f in self.nested_functions:
            yield f

    def is_dead_helper(self, f):
        if not getattr(f.node, "_inlined_somewhere", False):
            return False
        cache = self.__dict__.setdefault("_dead_cache", {})
        if f.qualname in cache:
            return cache[f.qualname]
        name = f.name
        used = False
        for m in self.modules.values():
            if used:
                break
            if name not in m.src:
                continue
            for n in ast.walk(m.tree):
                if isinstance(n, (ast.Attribute, ast.Name)) and isinstance(n.ctx, ast.Load) and (
                        n.attr if isinstance(n, ast.Attribute) else n.id) == name:
                    # a remaining reference outside the helper's own body keeps it alive
                    if enclosing_function(n) is not f.node:
                        used = True
                        break
        cache[f.qualname] = not used
        return not used

    def all_classes(self):
        for m in self.modules.values():
            for c in m.classes.values():
                yield c

    # ------------------------------------------------------------------ classes
    def _resolve_classes(self):
        for c in self.all_classes():
            for b in c.base_exprs:
                target = self.resolve_name_expr(b, c.module)
                if isinstance(target, ClassInfo):
                    c.bases.append(target)
                else:
                    c.foreign_bases.append(unparse(b))

    def mro(self, cls):
        out = []

        def visit(c):
            if c in out:
                return
            out.append(c)
            for b in c.bases:
                visit(b)

        visit(cls)
        return out

    def lookup_method(self, cls, name):
        for c in self.mro(cls):
            if name in c.methods:
                return c.methods[name]
        return None

    def lookup_class_attr(self, cls, name):
        for c in self.mro(cls):
            if name in c.attrs:
                return c, c.attrs[name]
        return None, None

    def subclasses(self, cls):
        return [c for c in self.all_classes() if cls in self.mro(c)]

    def _collect_nested(self):
        self.nested_functions = []
        for m in self.modules.values():
            tops = list(m.functions.values())
            for c in m.classes.values():
                tops.extend(c.methods.values())
            for f in tops:
                for node in ast.walk(f.node):
                    if node is f.node:
                        continue
                    if isinstance(node, (ast.FunctionDef, ast.AsyncFunctionDef)):
                        self.nested_functions.append(FuncInfo(m, node, cls=f.cls, outer=f))

    # ------------------------------------------------------------------ name resolution
    def resolve_import(self, module, name):
        """Resolve a local name bound by an import to a Module, ClassInfo, FuncInfo or
        ('binding', Module, name); None when it leaves the repository."""
        imp = module.imports.get(name)
        if imp is None:
            return None
        if imp[0] == "module":
            return self.modules.get(imp[1])
        modname, attr = imp[1], imp[2]
        full = modname + "." + attr
        if full in self.modules:
            return self.modules[full]
        m = self.modules.get(modname)
        if m is None:
            return None
        return self.resolve_global(m, attr)

    def resolve_global(self, module, name, _depth=0):
        if _depth > 8:
            return None
        if name in module.bindings:
            kind, obj = module.bindings[name][-1]
            if kind == "class" or kind == "func":
                return obj
            if kind == "assign":
                # alias of something else (e.g. WorkflowSpec = native_v1_models.WorkflowSpec)
                tgt = self.resolve_name_expr(obj, module, _depth + 1)
                if isinstance(tgt, (ClassInfo, FuncInfo, Module)):
                    return tgt
            return ("binding", module, name)
        if name in module.imports:
            return self.resolve_import(module, name)
        return None

    def resolve_name_expr(self, expr, module, _depth=0):
        """Resolve Name / dotted Attribute to a repository entity, or None."""
        if isinstance(expr, ast.Name):
            return self.resolve_global(module, expr.id, _depth)
        if isinstance(expr, ast.Attribute):
            base = self.resolve_name_expr(expr.value, module, _depth)
            if isinstance(base, Module):
                return self.resolve_global(base, expr.attr, _depth)
            if isinstance(base, ClassInfo):
                m = self.lookup_method(base, expr.attr)
                if m is not None:
                    return m
                c, node = self.lookup_class_attr(base, expr.attr)
                if node is not None:
                    return ("classattr", c, expr.attr)
        return None

    # ------------------------------------------------------------------ constant folder
    def fold_global(self, module, name, partial=False):
        key = (module.name, name, partial)
        if key in self._fold_cache:
            return self._fold_cache[key]
        if name not in module.bindings:
            tgt = self.resolve_import(module, name) if name in module.imports else None
            if isinstance(tgt, tuple) and tgt[0] == "binding":
                return self.fold_global(tgt[1], tgt[2], partial)
            if isinstance(tgt, ClassInfo):
                return ClassRef(tgt.qualname)
            raise NotFoldable("unbound global %s in %s" % (name, module.name))
        self._fold_cache[key] = Opaque("<recursive %s>" % name)
        value = None
        have = False
        for kind, obj in module.bindings[name]:
            if kind == "class":
                value, have = ClassRef(obj.qualname), True
            elif kind == "func":
                raise NotFoldable("function %s" % name)
            elif kind == "assign":
                value, have = self.fold(obj, module, partial=partial), True
            elif not have:
                raise NotFoldable("mutation before definition of %s" % name)
            elif kind == "method":
                value = self._fold_method_mutation(value, obj, module, partial)
            elif kind == "setitem":
                value = self._fold_setitem(value, obj, module, partial)
            elif kind == "augassign":
                rhs = self.fold(obj.value, module, partial=partial)
                if isinstance(obj.op, ast.Add):
                    value = value + rhs
                else:
                    raise NotFoldable("augmented assignment to %s" % name)
        self._fold_cache[key] = value
        return value

    def _fold_method_mutation(self, value, call, module, partial):
        meth = call.func.attr
        try:
            args = [self.fold(a, module, partial=False) for a in call.args]
        except NotFoldable:
            if partial:
                if meth in ("extend", "append", "insert", "update", "add"):
                    if isinstance(value, list):
                        return value + [Opaque(unparse(call))]
                    return value
            raise
        if meth == "extend" and isinstance(value, list):
            return value + list(args[0])
        if meth == "append" and isinstance(value, list):
            return value + [args[0]]
        if meth == "update" and isinstance(value, dict):
            out = dict(value)
            out.update(args[0])
            return out
        raise NotFoldable("module-level mutation .%s" % meth)

    def _fold_setitem(self, value, stmt, module, partial):
        raise NotFoldable("module-level subscript store: %s" % unparse(stmt))

    def fold(self, node, module, env=None, partial=False):
        """Fold an expression to a Python value without executing anything."""
        try:
            return self._fold(node, module, env or {}, partial)
        except NotFoldable:
            if partial:
                return Opaque(unparse(node))
            raise

    def _fold(self, node, module, env, partial):
        f = lambda n: self.fold(n, module, env, partial)  # noqa: E731
        if isinstance(node, ast.Constant):
            return node.value
        if isinstance(node, ast.Name):
            if node.id in env:
                return env[node.id]
            if node.id in ("True", "False", "None"):
                return {"True": True, "False": False, "None": None}[node.id]
            return self.fold_global(module, node.id, partial)
        if isinstance(node, ast.Attribute):
            base = self.resolve_name_expr(node.value, module)
            if isinstance(base, Module):
                return self.fold_global(base, node.attr, partial)
            if isinstance(base, ClassInfo):
                c, vnode = self.lookup_class_attr(base, node.attr)
                if vnode is not None:
                    return self.fold(vnode, c.module, partial=partial)
            raise NotFoldable("attribute %s" % unparse(node))
        if isinstance(node, (ast.List, ast.Tuple, ast.Set)):
            items = []
            for e in node.elts:
                if isinstance(e, ast.Starred):
                    items.extend(f(e.value))
                else:
                    items.append(f(e))
            if isinstance(node, ast.List):
                return items
            if isinstance(node, ast.Tuple):
                return tuple(items)
            return set(items)
        if isinstance(node, ast.Dict):
            out = {}
            for k, v in zip(node.keys, node.values):
                if k is None:
                    out.update(f(v))
                    continue
                kv = f(k)
                if isinstance(kv, Opaque):
                    raise NotFoldable("opaque dict key")
                out[kv] = f(v)
            return out
        if isinstance(node, ast.BinOp):
            left, right = f(node.left), f(node.right)
            if isinstance(left, Opaque) or isinstance(right, Opaque):
                raise NotFoldable("opaque operand")
            if isinstance(node.op, ast.Add):
                return left + right
            if isinstance(node.op, ast.Mod) and isinstance(left, str):
                return left % right
            if isinstance(node.op, ast.BitOr):
                return left | right
            if isinstance(node.op, ast.Mult) and (
                    (isinstance(left, (list, tuple, str)) and isinstance(right, int))
                    or (isinstance(right, (list, tuple, str)) and isinstance(left, int))) and \
                    (left if isinstance(left, int) else right) <= 64:
                return left * right
            if isinstance(node.op, ast.Sub) and isinstance(left, (set, frozenset)) and isinstance(
                    right, (set, frozenset)):
                return left - right
            raise NotFoldable("binop")
        if isinstance(node, ast.JoinedStr):
            raise NotFoldable("f-string")
        if isinstance(node, ast.Call):
            fn = node.func
            if isinstance(fn, ast.Name) and fn.id in ("list", "tuple", "set", "frozenset", "sorted"):
                if len(node.args) == 1 and not node.keywords:
                    v = f(node.args[0])
                    if isinstance(v, Opaque):
                        raise NotFoldable("opaque")
                    return {"list": list, "tuple": tuple, "set": set, "frozenset": frozenset,
                            "sorted": sorted}[fn.id](v)
            if isinstance(fn, ast.Name) and fn.id in ("str", "float", "int") and len(node.args) == 1:
                v = f(node.args[0])
                if isinstance(v, Opaque):
                    raise NotFoldable("opaque")
                return {"str": str, "float": float, "int": int}[fn.id](v)
            if isinstance(fn, ast.Name) and fn.id in ("str", "dict", "list") and not node.args:
                return {"str": str, "dict": dict, "list": list}[fn.id]()
            if isinstance(fn, ast.Attribute):
                if fn.attr in ("keys", "values") and not node.args:
                    v = f(fn.value)
                    if isinstance(v, dict):
                        return list(getattr(v, fn.attr)())
                if fn.attr == "join" and len(node.args) == 1:
                    sep, v = f(fn.value), f(node.args[0])
                    if isinstance(sep, str) and isinstance(v, (list, tuple)) and all(
                        isinstance(x, str) for x in v
                    ):
                        return sep.join(v)
                if fn.attr == "format" and not node.keywords:
                    s = f(fn.value)
                    args = [f(a) for a in node.args]
                    if isinstance(s, str) and not any(isinstance(a, Opaque) for a in args):
                        return s.format(*args)
            # a module-level helper that builds a constant (see sa.pureeval)
            target = None
            if isinstance(fn, ast.Name) and fn.id not in env:
                target = self.resolve_function_name(module, fn.id)
            elif isinstance(fn, ast.Attribute) and isinstance(fn.value, (ast.Name, ast.Attribute)):
                base = self.resolve_name_expr(fn.value, module)
                if isinstance(base, Module) and fn.attr in base.functions:
                    target = base.functions[fn.attr]
            if target is not None and not any(k.arg is None for k in node.keywords):
                from sa.pureeval import PureEval
                args = []
                for a in node.args:
                    if isinstance(a, ast.Starred):
                        seq = f(a.value)
                        if not isinstance(seq, (list, tuple)):
                            raise NotFoldable("star argument %s" % unparse(a))
                        args.extend(seq)
                    else:
                        args.append(f(a))
                kwargs = {k.arg: f(k.value) for k in node.keywords}
                if any(isinstance(a, Opaque) for a in args + list(kwargs.values())):
                    raise NotFoldable("opaque argument")
                return PureEval(self, target.module).call(target.node, args, kwargs)
            raise NotFoldable("call %s" % unparse(node))
        if isinstance(node, (ast.ListComp, ast.SetComp, ast.DictComp)) and not env:
            # a module-level comprehension over constants is a constant of the source
            from sa.pureeval import PureEval
            return PureEval(self, module).ev(node, {})
        raise NotFoldable(type(node).__name__)

    def resolve_function_name(self, module, name):
        """Module-level function `name` visible in `module` (defined there or imported)."""
        if name in module.functions:
            return module.functions[name]
        if name in module.imports:
            tgt = module.imports[name]
            if tgt[0] == "attr":
                m = self.modules.get(tgt[1]) or self.modules.get("orquesta." + tgt[1])
                if m is not None and tgt[2] in m.functions:
                    return m.functions[tgt[2]]
        return None

    # ------------------------------------------------------------------ convenience
    def fold_name(self, short_module, name, partial=False):
        return self.fold_global(self.module(short_module), name, partial)

    def binding_node(self, short_module, name):
        m = self.module(short_module)
        if name not in m.bindings:
            raise AnalysisError("anchor binding vanished: %s.%s" % (short_module, name))
        for kind, obj in m.bindings[name]:
            if kind == "assign":
                return obj
        raise AnalysisError("binding %s.%s is not an assignment" % (short_module, name))


def enclosing_function(node):
    n = getattr(node, "_parent", None)
    while n is not None and not isinstance(n, (ast.FunctionDef, ast.AsyncFunctionDef, ast.Lambda)):
        n = getattr(n, "_parent", None)
    return n


def enclosing_stmt(node):
    n = node
    while n is not None and not isinstance(n, ast.stmt):
        n = getattr(n, "_parent", None)
    return n


def _local_names(fnode):
    cached = getattr(fnode, "_sa_locals", None)
    if cached is not None:
        return cached
    names = set()
    if isinstance(fnode, (ast.FunctionDef, ast.AsyncFunctionDef, ast.Lambda)):
        a = fnode.args
        for x in a.posonlyargs + a.args + a.kwonlyargs:
            names.add(x.arg)
        if a.vararg:
            names.add(a.vararg.arg)
        if a.kwarg:
            names.add(a.kwarg.arg)
    for n in ast.walk(fnode):
        if isinstance(n, ast.Name) and isinstance(n.ctx, (ast.Store, ast.Del)):
            names.add(n.id)
        elif isinstance(n, ast.ExceptHandler) and n.name:
            names.add(n.name)
        elif isinstance(n, ast.Lambda):
            for x in n.args.args:
                names.add(x.arg)
    names -= {"self", "cls"}
    try:
        fnode._sa_locals = names
    except Exception:
        pass
    return names


class _Alpha(ast.NodeTransformer):
    def __init__(self, local):
        self.local = local
        self.map = {}

    def _n(self, name):
        if name not in self.map:
            self.map[name] = "_%d" % (len(self.map) + 1)
        return self.map[name]

    def visit_Name(self, node):
        if node.id in self.local:
            return ast.copy_location(ast.Name(id=self._n(node.id), ctx=node.ctx), node)
        return node

    def visit_arg(self, node):
        if node.arg in self.local:
            node.arg = self._n(node.arg)
        return node

    def visit_ExceptHandler(self, node):
        self.generic_visit(node)
        if node.name and node.name in self.local:
            node.name = self._n(node.name)
        return node


def alpha_src(node):
    """Source text of a node with the enclosing function's local names replaced by positional
    placeholders (_1, _2, ... in order of appearance): finding keys survive renaming of locals."""
    fn = enclosing_function(node) if not isinstance(node, (ast.FunctionDef, ast.AsyncFunctionDef)) \
        else node
    local = set()
    f = fn
    while f is not None:
        local |= _local_names(f)
        f = enclosing_function(f)
    try:
        import copy as _copy
        clone = _copy.deepcopy(node) if not hasattr(node, "_parent") else ast.parse(
            unparse(node)).body[0] if isinstance(node, ast.stmt) else ast.parse(
            unparse(node), mode="eval").body
    except SyntaxError:
        return " ".join(unparse(node).split())
    clone = _Alpha(local).visit(clone)
    return " ".join(unparse(clone).split())


def norm_src(node):
    """Normalised statement/expression text used to key findings: never line numbers, and local
    variable names are alpha-renamed."""
    if isinstance(node, (ast.If, ast.While)):
        return "%s %s" % (type(node).__name__.lower(), alpha_src(node.test))
    if isinstance(node, ast.For):
        hdr = ast.For(target=node.target, iter=node.iter, body=[ast.Pass()], orelse=[])
        ast.copy_location(hdr, node)
        hdr._parent = getattr(node, "_parent", None)
        txt = alpha_src(hdr)
        return txt[:-6] if txt.endswith(": pass") else txt
    if isinstance(node, (ast.FunctionDef, ast.ClassDef)):
        return "def %s" % node.name
    if isinstance(node, ast.Try):
        return "try"
    if isinstance(node, ast.ExceptHandler):
        return "except %s" % (unparse(node.type) if node.type is not None else "")
    return alpha_src(node)


def single_defs(fnode):
    """{local name: defining expression} for locals assigned exactly once, by a plain
    top-level `name = expr` statement of the function body (straight-line definition)."""
    counts, defs = {}, {}
    for n in ast.walk(fnode):
        if isinstance(n, (ast.Assign, ast.AugAssign, ast.AnnAssign, ast.For, ast.NamedExpr,
                          ast.With, ast.comprehension)):
            tgts = n.targets if isinstance(n, ast.Assign) else (
                [i.optional_vars for i in n.items if i.optional_vars is not None]
                if isinstance(n, ast.With) else [n.target])
            for t in tgts:
                for x in ast.walk(t):
                    if isinstance(x, ast.Name) and isinstance(x.ctx, ast.Store):
                        counts[x.id] = counts.get(x.id, 0) + 1
    for s in ast.walk(fnode):
        # assigned exactly once in the whole function (wherever): any use that is reached
        # after the assignment reads that value
        if isinstance(s, ast.Assign) and len(s.targets) == 1 and isinstance(s.targets[0], ast.Name):
            nm = s.targets[0].id
            if counts.get(nm) == 1 and nm not in {a.arg for a in fnode.args.args}:
                defs[nm] = s.value
    return defs


_SDEF_CACHE = {}


def single_defs_cached(fnode):
    key = id(fnode)
    hit = _SDEF_CACHE.get(key)
    if hit is None or hit[0] is not fnode:
        if len(_SDEF_CACHE) > 4000:
            _SDEF_CACHE.clear()
        hit = (fnode, single_defs(fnode))
        _SDEF_CACHE[key] = hit
    return hit[1]


def _fresh(expr):
    """A parent-less copy of an expression (deep-copying a node would drag the whole module
    along through its _parent link)."""
    return ast.parse(unparse(expr), mode="eval").body


def subst_locals(fnode, expr, depth=6):
    """`expr` with straight-line, single-assignment locals of `fnode` replaced by their
    defining expressions (so `x = f(a); return len(x) > 0` reads `len(f(a)) > 0`)."""
    defs = single_defs_cached(fnode)
    if not defs or not any(isinstance(x, ast.Name) and x.id in defs and isinstance(x.ctx, ast.Load)
                           for x in ast.walk(expr)):
        return expr

    class T(ast.NodeTransformer):
        def visit_Name(self, n):
            if isinstance(n.ctx, ast.Load) and n.id in defs:
                return _fresh(defs[n.id])
            return n

    out = _fresh(expr)
    for _ in range(depth):
        if not any(isinstance(x, ast.Name) and x.id in defs and isinstance(x.ctx, ast.Load)
                   for x in ast.walk(out)):
            break
        out = T().visit(out)
    return out


_TAG_RE = re.compile(r"__i\d+(?=\b|_)")


def untag(text):
    """`text` without the `__<helper><n>` suffixes the inlining pass appends to renamed locals
    (so that name-based heuristics do not match words of a helper's name)."""
    prev = None
    while prev != text:
        prev = text
        text = _TAG_RE.sub("", text)
    return text

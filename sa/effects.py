"""Effect (F1-F8), ownership (O1-O3) and persistence-coverage (S1) rules over the abstract
interpretation of sa.absint."""

import ast

from sa.absint import merge_contract_violations, MERGE_FN
from sa.core import AnalysisError, NotFoldable, norm_src, unparse
from sa.guards import FuncGuards, fmt_atoms, terminates, textually_before, callee_name
from sa.report import Finding, RuleResult

COND = "orquesta/conducting.py"
APPEND_ONLY = ("sequence", "contexts", "routes")
GROW_OPS = ("append", "extend")
MUTATING_OPS = ("append", "extend", "insert", "setitem", "delitem", "augassign", "pop", "popitem",
                "remove", "clear", "sort", "reverse", "update", "setdefault", "merge", "add",
                "discard")


def dotted(path):
    return ".".join(path)


def all_events(ctx):
    """Every event of every entry point, deduplicated by (kind, site, path)."""
    a = ctx.absint
    out = {}
    called = set()
    for callees in a.call_edges.values():
        called |= callees
    for f in ctx.prog.all_functions(include_dead=True):
        if getattr(f.node, "_inlined_somewhere", False):
            called.add(f.qualname)
    for entry, evs in a.entry_effects.items():
        # private helpers are reached through their public callers (or were inlined there);
        # one that nobody in the repository calls stays an entry of its own
        nm = entry.rsplit(".", 1)[1]
        if nm.startswith("_") and not nm.startswith("__") and entry in called:
            continue
        for e in evs:
            k = (e.base(), e.guards)
            if k not in out:
                out[k] = (entry, e)
    return list(out.values())


def effects_of(ctx, entry=None):
    a = ctx.absint
    if entry is not None:
        if entry not in a.entry_effects:
            raise AnalysisError("anchor entry point vanished: %s" % entry)
        return [e for e in a.entry_effects[entry] if e.kind == "effect"]
    return [e for _, e in all_events(ctx) if e.kind == "effect"]


def site_finding(rule, e, msg, construct=None):
    stmt = e.node
    while stmt is not None and not isinstance(stmt, ast.stmt):
        stmt = getattr(stmt, "_parent", None)
    con = construct or norm_src(stmt if stmt is not None else e.node)
    return Finding(rule, e.func.file, e.func.qualname, con, msg, line=getattr(e.node, "lineno", None),
                   chain=e.chain())


def is_construction(e):
    """Attribute initialisation of a freshly constructed state object: self.x = ... inside
    __init__, or x.attr = ... where x was bound to cls() / Class(...) in the same function."""
    if e.op != "setattr":
        return False
    node = e.node
    tgt = None
    if isinstance(node, ast.Assign) and len(node.targets) == 1:
        tgt = node.targets[0]
    if not isinstance(tgt, ast.Attribute) or not isinstance(tgt.value, ast.Name):
        return False
    name = tgt.value.id
    if e.func.name == "__init__" and e.func.params and name == e.func.params[0]:
        return True
    for n in ast.walk(e.func.node):
        if isinstance(n, ast.Assign) and len(n.targets) == 1 and isinstance(n.targets[0], ast.Name) \
                and n.targets[0].id == name and isinstance(n.value, ast.Call):
            f = n.value.func
            if isinstance(f, ast.Name) and (f.id == "cls" or f.id[:1].isupper()):
                return True
    # restore(): re-initialisation of every attribute from validated arguments
    if e.func.name == "restore":
        return True
    return False


# ====================================================================== F1
def rule_F1(ctx):
    res = RuleResult("F1", "history containers (sequence, contexts, routes) only grow")
    for e in effects_of(ctx):
        p = e.path
        if len(p) < 2 or p[0] != "WS" or p[1] not in APPEND_ONLY:
            continue
        inst = (dotted(p), e.op, e.func.qualname, norm_src(e.node))
        if len(p) == 2:
            if is_construction(e):
                res.holds(inst, "construction")
            else:
                res.violated(inst, site_finding(
                    "F1", e, "%s on the append-only container %s" % (e.op, dotted(p))))
        elif len(p) == 3:
            if e.op in GROW_OPS:
                res.holds(inst)
            elif e.op in ("setitem", "delitem", "insert", "augassign"):
                res.violated(inst, site_finding(
                    "F1", e, "element of append-only container %s is %s" % (
                        dotted(p[:2]), "replaced/removed by " + e.op)))
    return res


# ====================================================================== F2
def rule_F2(ctx):
    res = RuleResult("F2", "the frozen fields of an execution record (id, route, prev, ctxs.in) "
                           "and stored context deltas have no writer")
    frozen = [("id",), ("route",), ("prev",), ("ctxs", "in")]
    n_seen = 0
    for e in effects_of(ctx):
        p = e.path
        if p[:3] == ("WS", "sequence", "*") and len(p) > 3:
            for f in frozen:
                if p[3:3 + len(f)] == f:
                    n_seen += 1
                    res.violated((dotted(p), e.op, e.func.qualname), site_finding(
                        "F2", e, "%s writes %s of a stored execution record (via %s)"
                        % (e.op, dotted(p), e.via)))
        if p[:3] == ("WS", "contexts", "*") and (len(p) > 3 or e.op not in GROW_OPS):
            n_seen += 1
            res.violated((dotted(p), e.op, e.func.qualname), site_finding(
                "F2", e, "%s writes into a stored context delta %s (%s)" % (
                    e.op, dotted(p), "through a borrowed reference" if e.via == "held" else e.via)))
    # obligations: every write site on records / deltas was examined
    for e in effects_of(ctx):
        p = e.path
        if p[:2] in (("WS", "sequence"), ("WS", "contexts")):
            inst = ("examined", dotted(p), e.op, e.func.qualname, norm_src(e.node))
            if not any(i[0] == inst for i in res.instances):
                res.holds(inst)
    return res


# ====================================================================== helpers for F3/F4
import re as _re
# result temporaries and renamed helper locals introduced by sa.inline
_INLINED_NAME = _re.compile(r"^(__ret__i\d+(__i\d+)*|\w+?(__i\d+)+)$")


def local_def(fnode, name, _depth=0):
    """All 'name = expr' definitions of a local.  A definition that merely copies a result
    temporary of the inlining pass (x = __ret__h3) is replaced by the assignments of that
    temporary (minus its None initialisation), so a value computed in an inlined helper reads
    as if it had been assigned to the caller's variable under the helper's own guards."""
    defs = []
    for n in ast.walk(fnode):
        if isinstance(n, ast.Assign):
            for t in n.targets:
                if isinstance(t, ast.Name) and t.id == name:
                    v = n.value
                    if isinstance(v, ast.Name) and _INLINED_NAME.match(v.id) and _depth < 4:
                        inner = [d for d in local_def(fnode, v.id, _depth + 1) if not (
                            isinstance(d, ast.Assign) and isinstance(d.value, ast.Constant)
                            and d.value.value is None)]
                        defs.extend(inner or [n])
                    else:
                        defs.append(n)
        elif isinstance(n, (ast.AugAssign, ast.AnnAssign)) and isinstance(n.target, ast.Name) \
                and n.target.id == name:
            defs.append(n)
    if name.startswith("__ret__") and len(defs) > 1:
        # the None initialisation of a result temporary is not one of the returned values
        rest = [d for d in defs if not (isinstance(d, ast.Assign) and isinstance(
            d.value, ast.Constant) and d.value.value is None)]
        defs = rest or defs
    return defs


def _truth_alternatives(f, fg, name, polarity, depth=0):
    """Alternative guard lists under which local `name` is truthy (falsy for polarity False):
    for a local defined once by a test, that test; for a result temporary of the inlining pass
    (assigned once per lowered `return`, in mutually exclusive branches), one alternative per
    assignment = the guards of the assignment plus the truth of the assigned expression.
    None when the local is not of these kinds."""
    # raw definitions (no see-through): the guards of every copying assignment matter here
    ds = [n_ for n_ in ast.walk(f.node) if isinstance(n_, ast.Assign) and any(
        isinstance(t_, ast.Name) and t_.id == name for t_ in n_.targets)]
    if name.startswith("__ret__") and len(ds) > 1:
        first = min(ds, key=lambda d_: d_._ord)
        if isinstance(first.value, ast.Constant) and first.value.value is None:
            ds = [d_ for d_ in ds if d_ is not first]
    inl = all(True for _ in ds) and any(
        isinstance(t, ast.Name) and t.id.startswith("__ret__")
        for d in ds for t in d.targets)
    if not ds or (len(ds) > 1 and not inl) or depth > 3:
        return None
    alts = []
    for d in ds:
        v = d.value
        here = list(fg.atoms(d)) if inl else []
        if isinstance(v, ast.Constant):
            if bool(v.value) == polarity:
                alts.append(here)
            continue
        if isinstance(v, ast.Name):
            sub = _truth_alternatives(f, fg, v.id, polarity, depth + 1)
            if sub is None:
                alts.append(here + [("truthy" if polarity else "falsy", v.id, None)])
            else:
                alts.extend(here + s_ for s_ in sub)
            continue
        if isinstance(v, (ast.Compare, ast.BoolOp, ast.UnaryOp, ast.Call)):
            alts.append(here + list(fg.norm.conj(v, polarity)))
            continue
        if isinstance(v, ast.IfExp):
            # x = A if t else B : truthy when (t and A) or (not t and B)
            for branch, pol in ((v.body, True), (v.orelse, False)):
                cond = list(fg.norm.conj(v.test, pol))
                if isinstance(branch, ast.Constant):
                    if bool(branch.value) == polarity:
                        alts.append(here + cond)
                    continue
                if isinstance(branch, ast.Name):
                    sub = _truth_alternatives(f, fg, branch.id, polarity, depth + 1)
                    if sub is None:
                        alts.append(here + cond + [("truthy" if polarity else "falsy",
                                                    branch.id, None)])
                    else:
                        alts.extend(here + cond + s_ for s_ in sub)
                    continue
                alts.append(here + cond + list(fg.norm.conj(branch, polarity)))
            continue
        return None
    return alts


def _none_alternatives(f, fg, name, want_none):
    """Alternative guard lists under which a result temporary of the inlining pass (or a local
    that copies one) is None / is not None: one alternative per assignment of the wanted
    kind, consisting of the guards of that assignment."""
    def raw(nm):
        return [n for n in ast.walk(f.node) if isinstance(n, ast.Assign) and any(
            isinstance(t, ast.Name) and t.id == nm for t in n.targets)]
    ds = raw(name)
    for _ in range(3):
        if len(ds) == 1 and isinstance(ds[0].value, ast.Name) and not name.startswith("__ret__"):
            name = ds[0].value.id
            ds = raw(name)
    if not ds or not name.startswith("__ret__"):
        return None
    # the unconditional None initialisation of the temporary is not a returned value
    if len(ds) > 1:
        first = min(ds, key=lambda d: d._ord)
        if isinstance(first.value, ast.Constant) and first.value.value is None and not fg.atoms(first):
            ds = [d for d in ds if d is not first]
    alts = []
    for d in ds:
        is_none = isinstance(d.value, ast.Constant) and d.value.value is None
        if is_none == want_none:
            alts.append(list(fg.atoms(d)))
    return alts or None


_COMPLEMENT = {"is": "isnot", "isnot": "is", "truthy": "falsy", "falsy": "truthy", "in": "notin",
               "notin": "in", "==": "!=", "!=": "==", "<": ">=", ">=": "<", ">": "<=", "<=": ">"}


def _contradictory(alt):
    """The conjunction contains an atom and its complement: an infeasible combination."""
    seen = set()
    for a in alt:
        if a[0] == "const" and not a[1]:
            return True   # a constant-false test: this branch is dead
        if a[0] in _COMPLEMENT and len(a) > 2:
            try:
                if (_COMPLEMENT[a[0]], a[1], a[2]) in seen:
                    return True
                seen.add((a[0], a[1], a[2]))
            except TypeError:
                continue
    return False


def expand_alternatives(f, fg, atoms, _depth=0):
    """The guard list `atoms` as a list of alternative guard lists in which truthy / falsy
    atoms on boolean locals (see _truth_alternatives) are replaced by what they stand for."""
    first = _expand_once(f, fg, atoms)
    if _depth >= 3:
        return first
    out = []
    for alt in first:
        if alt == list(atoms):
            out.append(alt)
            continue
        again = expand_alternatives(f, fg, alt, _depth + 1)
        out.extend(again)
    # drop duplicates, keep order
    seen, uniq = set(), []
    for alt in out:
        key = repr(alt)
        if key not in seen:
            seen.add(key)
            uniq.append(alt)
    return uniq[:128]


def _expand_once(f, fg, atoms):
    alts = [[]]
    for a in atoms:
        sub = None
        if a[0] in ("truthy", "falsy") and isinstance(a[1], str) and a[1].isidentifier():
            sub = _truth_alternatives(f, fg, a[1], a[0] == "truthy")
        if sub is None and a[0] in ("is", "isnot") and len(a) > 2 and a[2] is None \
                and isinstance(a[1], str) and a[1].isidentifier():
            sub = _none_alternatives(f, fg, a[1], a[0] == "is")
        if a[0] == "const" and a[1]:
            continue   # a constant-true test constrains nothing
        if sub is None and a[0] == "or":
            if any(all(x_[0] == "const" and x_[1] for x_ in alt) for alt in a[1]):
                continue   # one disjunct is constantly true: the disjunction is vacuous
            sub = [list(alt) for alt in a[1]]
        if sub is None:
            alts = [x + [a] for x in alts]
        else:
            alts = [x + list(s_) for x in alts for s_ in sub][:128]
    alts = [alt for alt in alts if not _contradictory(alt)] or alts[:1]
    # nested alternatives introduced by the substitution
    if any(a[0] == "or" for alt in alts for a in alt) and len(alts) < 128:
        out = []
        for alt in alts:
            if any(a[0] == "or" for a in alt):
                out.extend(_expand_once(f, fg, alt))
            else:
                out.append(alt)
        alts = out[:128]
    return alts


def value_is_table_lookup(prog, func, expr, table):
    """expr is TABLE[..][..] directly or through single-assignment locals."""
    seen = 0
    while isinstance(expr, ast.Name) and seen < 4:
        defs = [d for d in local_def(func.node, expr.id) if isinstance(d, ast.Assign)]
        # every definition must be either the lookup or a plain copy of another status variable
        lookups = [d for d in defs if _is_lookup(prog, func, d.value, table)]
        if lookups:
            return True
        if len(defs) != 1:
            return False
        expr = defs[0].value
        seen += 1
    return _is_lookup(prog, func, expr, table)


def _is_lookup(prog, func, expr, table, depth=0):
    if isinstance(expr, ast.Subscript):
        base = expr
        while isinstance(base, ast.Subscript):
            base = base.value
        if isinstance(base, ast.Name) and depth < 3:
            # a local that holds (a row of) the table
            ds = [d for d in local_def(func.node, base.id) if isinstance(d, ast.Assign)]
            if ds and all(_is_lookup(prog, func, d.value, table, depth + 1) or (
                    isinstance(d.value, ast.Name) and _names_table(prog, func, d.value, table))
                    for d in ds):
                return True
        return _names_table(prog, func, base, table)
    if isinstance(expr, ast.Call) and isinstance(expr.func, ast.Attribute) and expr.func.attr == "get":
        return _is_lookup(prog, func, ast.Subscript(value=expr.func.value, slice=ast.Constant(0),
                                                    ctx=ast.Load()), table, depth)
    return False


def _names_table(prog, func, base, table):
    tgt = prog.resolve_name_expr(base, func.module)
    return isinstance(tgt, tuple) and tgt[0] == "binding" and tgt[2] == table


def assigned_value(e):
    n = e.node
    if isinstance(n, ast.Assign):
        return n.value
    if isinstance(n, ast.AugAssign):
        return n.value
    return None


def has_atom(guards, pred):
    for fq, a in guards:
        if a[0] == "or":
            continue
        if pred(fq, a):
            return True
    return False


def status_set(ctx, name):
    return frozenset(ctx.prog.fold_name("statuses", name))


# ====================================================================== F3
def rule_F3(ctx):
    res = RuleResult("F3", "transition decisions, outgoing contexts and task statuses are "
                           "written once: on the status change to a completed status / by the "
                           "task machine only")
    prog = ctx.prog
    completed = status_set(ctx, "COMPLETED_STATUSES")
    uts = prog.function("conducting.WorkflowConductor.update_task_state")
    for e in effects_of(ctx):
        p = e.path
        if p[:3] != ("WS", "sequence", "*") or len(p) < 4:
            continue
        fld = p[3]
        inst = (dotted(p), e.op, e.func.qualname, norm_src(e.node))
        if fld == "next" or (fld == "ctxs" and p[4:5] == ("out",)):
            ok, why = _decision_guard(ctx, e, completed)
            if ok:
                res.holds(inst, why)
            else:
                res.violated(inst, site_finding("F3", e, "decision field %s written %s" % (
                    dotted(p), why)))
        elif fld == "status":
            v = assigned_value(e)
            if e.func.cls is not None and e.func.cls.name == "TaskStateMachine" and v is not None \
                    and value_is_table_lookup(prog, e.func, v, "TASK_STATE_MACHINE_DATA"):
                res.holds(inst, "table-driven")
            else:
                res.violated(inst, site_finding(
                    "F3", e, "task status written outside the task state machine / not from "
                    "TASK_STATE_MACHINE_DATA"))
        elif fld == "term":
            v = assigned_value(e)
            if e.op == "setitem" and isinstance(v, ast.Constant) and v.value is True:
                res.holds(inst)
            elif e.op in ("pop", "delitem"):
                entries = {en for en, evs in ctx.absint.entry_effects.items()
                           if not en.rsplit(".", 1)[1].startswith("_")
                           for ev in evs if ev.kind == "effect" and ev.node is e.node}
                if entries and all(en.endswith("request_workflow_rerun") for en in entries):
                    res.holds(inst, "reset by rerun")
                else:
                    res.violated(inst, site_finding(
                        "F3", e, "term flag removed outside request_workflow_rerun (%s)"
                        % sorted(entries)))
            else:
                res.violated(inst, site_finding("F3", e, "term flag assigned a value other than True"))
    return res


def _decision_guard(ctx, e, completed):
    """Guards of the write contain  S_after in COMPLETED  and  S_after != S_before  where both
    are reads of the record's status, one after and one before the task machine call."""
    f = e.func
    fq = f.qualname
    own = [a for q, a in e.guards if q == fq]
    alts = expand_alternatives(f, FuncGuards(ctx.prog, f), own)
    if len(alts) > 1 or (alts and alts[0] != own):
        # boolean locals stand for what they were assigned: every alternative has to qualify
        verdict = None
        for alt in alts:
            verdict = _decision_guard_1(f, alt, completed)
            if not verdict[0]:
                return verdict
        if verdict is not None:
            return verdict
    return _decision_guard_1(f, own, completed)


def _decision_guard_1(f, own, completed):
    in_atoms = [a for a in own if a[0] == "in" and a[2] == completed]
    ne_atoms = [a for a in own if a[0] == "!="]
    if not in_atoms:
        return False, "without a 'new status in COMPLETED_STATUSES' guard"
    mc = _machine_call(f)
    if mc is None:
        return False, "in a function that does not call TaskStateMachine.process_event"
    for ia in in_atoms:
        after = ia[1]
        for na in ne_atoms:
            other = na[2][1] if isinstance(na[2], tuple) and na[2][0] == "src" else None
            pair = {na[1], other}
            if after in pair and len(pair) == 2:
                before = (pair - {after}).pop()
                da = _status_read_def(f, after)
                db = _status_read_def(f, before)
                if da is not None and db is not None and textually_before(mc, da) and \
                        textually_before(db, mc):
                    return True, "guarded by status change to completed"
    return False, "without the 'status changed' guard (old status read before, new status read " \
                  "after the task machine)"


def _machine_call(f):
    for n in ast.walk(f.node):
        if isinstance(n, ast.Call) and callee_name(n) == "process_event" and \
                "TaskStateMachine" in unparse(n.func):
            return n
    return None


def _status_read_def(f, name):
    if name is None:
        return None
    defs = local_def(f.node, name)
    if len(defs) != 1 or not isinstance(defs[0], ast.Assign):
        return None
    v = defs[0].value
    txt = unparse(v)
    if "status" in txt and (".get(" in txt or "[" in txt):
        return defs[0]
    return None


# ====================================================================== F4
def rule_F4(ctx):
    res = RuleResult("F4", "the workflow status is written only from the transition table, "
                           "after validation, by the unreachable-join override, by rerun, or at "
                           "construction")
    prog = ctx.prog
    completed = status_set(ctx, "COMPLETED_STATUSES")
    for e in effects_of(ctx):
        if e.path != ("WS", "status"):
            continue
        inst = (e.func.qualname, norm_src(e.node))
        v = assigned_value(e)
        own = [a for q, a in e.guards if q == e.func.qualname]
        if is_construction(e):
            res.holds(inst, "construction")
            continue
        if v is not None and value_is_table_lookup(prog, e.func, v, "WORKFLOW_STATE_MACHINE_DATA"):
            res.holds(inst, "table-driven")
            continue
        if any(a[0] == "truthy" and "is_transition_valid" in a[1] for a in own):
            res.holds(inst, "validated by is_transition_valid")
            continue
        folded = None
        if v is not None:
            try:
                folded = prog.fold(v, e.func.module)
            except NotFoldable:
                folded = None
        on_completed = any(
            (a[0] == "in" and isinstance(a[2], frozenset) and a[2] and a[2] <= completed)
            or (a[0] == "==" and a[2] in completed) for a in own)
        if folded == "failed" and on_completed and any(
                a[0] == "truthy" and "unreachable" in a[1] for a in own):
            res.holds(inst, "unreachable-join override")
            continue
        if folded == "resuming" and any(a[0] == "in" and a[2] == completed for a in own):
            res.holds(inst, "rerun of a completed workflow")
            continue
        res.violated(inst, site_finding(
            "F4", e, "workflow status assigned directly (value %s, guards %s)" % (
                unparse(v) if v is not None else "?", fmt_atoms(own))))
    return res


# ====================================================================== F5
QUERY_ENTRIES_EMPTY = [
    "conducting.WorkflowConductor.serialize",
    "conducting.WorkflowState.serialize",
    "conducting.WorkflowConductor.get_workflow_status",
    "conducting.WorkflowConductor.get_workflow_input",
    "conducting.WorkflowConductor.get_workflow_parent_context",
    "conducting.WorkflowConductor.get_workflow_initial_context",
    "conducting.WorkflowConductor.get_workflow_terminal_context",
    "conducting.WorkflowConductor.get_workflow_output",
    "conducting.WorkflowConductor.get_task_context",
    "conducting.WorkflowConductor.get_task_initial_context",
    "conducting.WorkflowConductor.get_task_transition_contexts",
    "conducting.WorkflowConductor.get_task_state_entry",
    "conducting.WorkflowConductor.get_inbound_criteria_status",
    "conducting.WorkflowConductor.has_next_tasks",
    "conducting.WorkflowConductor.has_barrier_next",
    "conducting.WorkflowConductor._has_next",
    "conducting.WorkflowConductor.make_task_context",
    "conducting.WorkflowConductor.make_task_result",
    "conducting.WorkflowState.get_unreachable_barriers",
    "conducting.WorkflowState.get_staged_tasks",
    "conducting.WorkflowState.get_staged_task",
    "conducting.WorkflowState.get_tasks",
    "conducting.WorkflowState.get_tasks_by_status",
    "conducting.WorkflowState.get_task",
    "conducting.WorkflowState.get_task_sequence",
    "conducting.WorkflowState.get_terminal_tasks",
    "conducting.WorkflowState.has_task",
    "conducting.WorkflowState.has_next_tasks",
    "conducting.WorkflowState.has_barrier_next",
    "conducting.WorkflowState.has_active_tasks",
    "conducting.WorkflowState.has_staged_tasks",
    "conducting.WorkflowState.has_paused_tasks",
    "conducting.WorkflowState.has_pausing_tasks",
    "conducting.WorkflowState.has_canceling_tasks",
    "conducting.WorkflowState.has_canceled_tasks",
]

# ====================================================================== memo attributes
def _is_empty_value(v):
    if v is None:
        return False
    if isinstance(v, ast.Constant):
        return True  # a constant does not derive from any state: None, 0, -1, False ...
    if isinstance(v, ast.UnaryOp) and isinstance(v.operand, ast.Constant):
        return True
    if isinstance(v, (ast.Dict, ast.List, ast.Set, ast.Tuple)) and not (
            getattr(v, "keys", None) or getattr(v, "elts", None)):
        return True
    if isinstance(v, ast.Call) and isinstance(v.func, ast.Name) and v.func.id in (
            "dict", "set", "list", "frozenset", "tuple") and not v.args and not v.keywords:
        return True
    return False


def memo_attrs(ctx):
    """{(root, attr): problem or None} for the run-time attributes of the state / conductor
    that are *derived caches*: not persisted, empty after construction (so a restored object
    starts without them), and filled from other attributes.  A memo is coherent when every
    function that writes one of the attributes it is computed from (other than by appending:
    entries of append-only lists never change) also resets the memo; the problem text names
    the writer that does not.  Coherent memos are not state: serialisation need not carry
    them, a query may fill them, a rejected request may have filled them."""
    def build():
        prog = ctx.prog
        out = {}
        allef = effects_of(ctx)
        for root, cname in (("WS", "WorkflowState"), ("WC", "WorkflowConductor")):
            cls = prog.cls("conducting." + cname)
            ser = prog.lookup_method(cls, "serialize")
            if ser is None:
                continue
            ser_reads = _transitive_self_reads(prog, cls, ser)
            attrs = {e.path[1] for e in allef if e.path[0] == root and len(e.path) >= 2}
            attrs -= ser_reads | {"conductor", "_workflow_state"}
            for attr in sorted(attrs):
                effs = [e for e in allef if e.path[:2] == (root, attr)]
                empties = [e for e in effs if e.op == "setattr" and len(e.path) == 2
                           and _is_empty_value(assigned_value(e))]
                if not any(e.func.name == "__init__" for e in empties):
                    continue
                fillers = {}
                for e in effs:
                    if e in empties or e.func.name == "__init__":
                        continue
                    if e.op in ("pop", "clear", "discard", "remove", "popitem", "delitem"):
                        continue
                    fillers[e.func.qualname] = e.func
                sources = set()
                fill_effs = [e for e in effs if e not in empties and e.func.name != "__init__"
                             and e.op not in ("pop", "clear", "discard", "remove", "popitem",
                                              "delitem")]
                for e in fill_effs:
                    sources |= _value_sources(prog, e)
                sources = {s_ for s_ in sources if s_ != (root, attr)
                           and not s_[1].startswith(attr) and not attr.startswith(s_[1] + "_")}
                if not sources and not all(
                        isinstance(assigned_value(e), ast.Constant) or (
                            isinstance(assigned_value(e), ast.UnaryOp)) for e in fill_effs):
                    # filled from arguments, not recomputed from the state: an index kept
                    # beside the state (it is empty after a restore while the state is not)
                    continue
                resets = [e for e in effs if e in empties or e.op in ("clear",)]
                reset_funcs = set()
                for e in resets:
                    reset_funcs |= set(e.chain())
                problem = None
                for r_, x in sorted(sources):
                    wr = [e for e in allef if e.path[:2] == (r_, x)
                          and e.func.name not in ("__init__", "deserialize", "restore")
                          and e.func.module.short in ("conducting", "machines")
                          and not is_construction(e)]
                    if not wr or all(e.op == "append" for e in wr):
                        continue
                    lazy = prog.lookup_method(prog.cls("conducting.WorkflowConductor"),
                                              "workflow_state")
                    for e in wr:
                        if e.func.qualname in reset_funcs or e.func.qualname in fillers:
                            continue
                        # lazy initialisation of the source itself (if not self._x: self._x = ..)
                        if any(q == e.func.qualname and a_[0] == "falsy" and str(a_[1]).endswith(
                                "." + x) for q, a_ in e.guards):
                            continue
                        if lazy is not None and e.func is lazy:
                            continue
                        problem = "%s.%s is computed from %s.%s, which %s writes (%s) without " \
                                  "resetting it" % (cname, attr, "WorkflowState" if r_ == "WS"
                                                    else "WorkflowConductor", x, e.func.qualname,
                                                    e.op)
                        break
                    if problem:
                        break
                out[(root, attr)] = problem
                out.setdefault("_fillers", {})[(root, attr)] = set(fillers)
        fl = out.pop("_fillers", {})
        # a stamp kept beside a memo (filled only where the memo is filled) shares its verdict
        for k, prob in list(out.items()):
            if prob is None:
                continue
            for k2, prob2 in out.items():
                if k2 != k and prob2 is None and fl.get(k) and fl[k] <= fl.get(k2, set()):
                    out[k] = None
        return out
    return ctx.get("memo_attrs", build)


def _value_sources(prog, e):
    """(root, attribute) pairs the value stored by effect e is computed from: self attributes
    (and workflow_state attributes) read in the stored expression, in the definitions of the
    locals it mentions (three hops) and in the methods of the own class it calls."""
    f = e.func
    own = "WS" if (f.cls is not None and f.cls.name == "WorkflowState") else "WC"
    selfname = f.params[0] if f.params else "self"
    v = assigned_value(e)
    exprs = [v] if v is not None else []
    if v is None and isinstance(e.node, ast.Call):
        exprs = list(e.node.args)
    elif v is None:
        exprs = [e.node]
    out, seen = set(), set()
    work = list(exprs)
    hops = 0
    while work and hops < 40:
        hops += 1
        x = work.pop()
        for n in ast.walk(x):
            if isinstance(n, ast.Attribute):
                if isinstance(n.value, ast.Name) and n.value.id == selfname:
                    m = prog.lookup_method(f.cls, n.attr) if f.cls is not None else None
                    if m is not None:
                        if m.qualname not in seen:
                            seen.add(m.qualname)
                            for r in _transitive_self_reads(prog, f.cls, m, depth=2):
                                out.add((own, r))
                    else:
                        out.add((own, n.attr))
                elif isinstance(n.value, ast.Attribute) and n.value.attr in (
                        "workflow_state", "_workflow_state"):
                    out.add(("WS", n.attr))
            elif isinstance(n, ast.Name) and n.id not in seen and n.id != selfname:
                seen.add(n.id)
                for d in ast.walk(f.node):
                    if isinstance(d, ast.Assign) and any(
                            isinstance(t, ast.Name) and t.id == n.id for t in d.targets):
                        work.append(d.value)
                    elif isinstance(d, ast.For) and any(
                            isinstance(t, ast.Name) and t.id == n.id for t in ast.walk(d.target)):
                        work.append(d.iter)
    return {s_ for s_ in out if s_[1] not in ("workflow_state", "_workflow_state", "conductor")}


def _is_memo_path(ctx, path):
    m = memo_attrs(ctx)
    return len(path) >= 2 and (path[0], path[1]) in m and m[(path[0], path[1])] is None


def rule_F5(ctx):
    res = RuleResult("F5", "queries do not write persistent state (get_next_tasks: only the "
                           "item list initialisation and the error path)")
    a = ctx.absint
    present = 0
    for q in QUERY_ENTRIES_EMPTY:
        if q not in a.entry_effects:
            continue  # renamed/removed query: nothing to check for it
        present += 1
        effs = [e for e in effects_of(ctx, q) if not _is_memo_path(ctx, e.path)]
        if not effs:
            res.holds((q,))
        for e in effs:
            res.violated((q, dotted(e.path), e.op, e.func.qualname), site_finding(
                "F5", e, "query %s may %s %s (via %s)" % (q.split(".", 1)[1], e.op, dotted(e.path),
                                                          e.via)))
    if present < 20:
        raise AnalysisError("fewer than 20 of the known query entry points exist (%d)" % present)
    # get_next_tasks
    gq = "conducting.WorkflowConductor.get_next_tasks"
    f = ctx.prog.function(gq)
    fg = FuncGuards(ctx.prog, f)
    for e in effects_of(ctx, gq):
        if _is_memo_path(ctx, e.path):
            continue
        inst = (gq, dotted(e.path), e.op, e.func.qualname, norm_src(e.node))
        own = [a_ for q_, a_ in e.guards if q_ == e.func.qualname]
        if e.path[:3] == ("WS", "staged", "*") and e.path[3:] == ("items",) and e.op == "setitem":
            absent = any(
                a_[0] == "or" and any(alt and alt[0][0] in ("notin", "falsy") for alt in a_[1])
                for a_ in own) or any(a_[0] == "notin" and a_[1] == "'items'" for a_ in own) \
                or any(a_[0] == "falsy" and "items" in str(a_[1]) for a_ in own)
            if absent:
                res.holds(inst, "initialisation guarded by absence of the item list")
            else:
                res.violated(inst, site_finding(
                    "F5", e, "item list of a staged entry overwritten by a query without the "
                    "'not yet initialised' guard"))
            continue
        # error path: the call that leads to the write sits in an except handler of the entry
        # function, or under a flag that is only set in one
        top = e.stack[0][1] if e.stack else e.node
        if _on_error_path(f, fg, top):
            res.holds(inst, "error path")
        else:
            res.violated(inst, site_finding(
                "F5", e, "get_next_tasks may %s %s outside its error path (via %s)" % (
                    e.op, dotted(e.path), e.via)))
    return res


def error_only(f, fg, node, depth=0):
    """`node` is executed only after an exception handler of `f` ran: it sits in a handler, or
    under a test that a value is None / false where every None / False definition of that
    value (apart from the initialisation of a result temporary) is itself error-only - the
    shape left behind when a try/except that returns a sentinel is extracted into a helper."""
    if fg.enclosing_handlers(node):
        return True
    if depth > 3:
        return False

    def raw(nm):
        return [n for n in ast.walk(f.node) if isinstance(n, ast.Assign) and any(
            isinstance(t, ast.Name) and t.id == nm for t in n.targets)]
    def sentinel_names(a):
        """Names whose being None / false the atom requires: `x is None`, `not x`, and - for a
        list of results - `any(r is None for r in L)` / `None in L`, which says so of what was
        appended to L."""
        if ((a[0] == "is" and len(a) > 2 and a[2] is None) or a[0] == "falsy") and \
                isinstance(a[1], str) and a[1].isidentifier():
            return [a[1]]
        if a[0] == "truthy" and isinstance(a[1], str) and a[1].startswith("any("):
            try:
                e = ast.parse(a[1], mode="eval").body
            except SyntaxError:
                return []
            g = e.args[0] if e.args and isinstance(e.args[0], (ast.GeneratorExp, ast.ListComp)) \
                else None
            if g is None or len(g.generators) != 1 or g.generators[0].ifs:
                return []
            gen = g.generators[0]
            c = g.elt
            if isinstance(c, ast.Compare) and len(c.ops) == 1 and isinstance(c.ops[0], ast.Is) \
                    and isinstance(c.comparators[0], ast.Constant) and \
                    c.comparators[0].value is None and isinstance(c.left, ast.Name) and \
                    isinstance(gen.target, ast.Name) and c.left.id == gen.target.id and \
                    isinstance(gen.iter, ast.Name):
                lst = gen.iter.id
                out_ = []
                for call in ast.walk(f.node):
                    if isinstance(call, ast.Call) and isinstance(call.func, ast.Attribute) and \
                            call.func.attr in ("append", "extend", "insert") and isinstance(
                                call.func.value, ast.Name) and call.func.value.id == lst:
                        if call.func.attr != "append" or not call.args or not isinstance(
                                call.args[0], ast.Name):
                            return []
                        out_.append(call.args[0].id)
                return out_
        return []

    for a in fg.atoms(node):
        names_ = sentinel_names(a)
        if not names_:
            continue
        verdicts = []
        for nm in names_:
            verdicts.append(_sentinel_is_error_only(f, fg, nm, raw, depth))
        if verdicts and all(verdicts):
            return True
    return False


def _sentinel_is_error_only(f, fg, nm, raw, depth):
    if True:
        ds = raw(nm)
        for _ in range(3):
            if len(ds) == 1 and isinstance(ds[0].value, ast.Name):
                nm = ds[0].value.id
                ds = raw(nm)
        if nm.startswith("__ret__") and len(ds) > 1:
            first = min(ds, key=lambda d: d._ord)
            if isinstance(first.value, ast.Constant) and first.value.value is None:
                ds = [d for d in ds if d is not first]
        sentinels = [d for d in ds if isinstance(d.value, ast.Constant)
                     and d.value.value in (None, False)]
        if sentinels and all(error_only(f, fg, d, depth + 1) for d in sentinels):
            return True
    return False


def _on_error_path(f, fg, node):
    if error_only(f, fg, node):
        return True
    flags = set()
    for g in fg.atoms(node):
        if g[0] == "truthy":
            flags.add(g[1])
    for name in flags:
        defs = local_def(f.node, name)
        true_defs = [d for d in defs if isinstance(d, ast.Assign) and not (
            isinstance(d.value, ast.Constant) and d.value.value is False)]
        if true_defs and all(error_only(f, fg, d) for d in true_defs):
            return True
    return False


# ====================================================================== F6
def rule_F6(ctx, entries=("conducting.WorkflowConductor.request_workflow_status",
                          "conducting.WorkflowConductor.request_workflow_rerun")):
    res = RuleResult("F6", "a request that is rejected has written nothing: no persistent write "
                           "precedes a rejecting raise")
    for q in entries:
        f = ctx.prog.function(q)
        fg = FuncGuards(ctx.prog, f)
        raises = [n for n in ast.walk(f.node) if isinstance(n, ast.Raise)]
        effs = effects_of(ctx, q)
        for r in raises:
            exempt_paths = _unchanged_paths(ctx, f, fg, r)
            bad = {}
            for e in effs:
                top = e.stack[0][1] if e.stack else e.node
                if _is_memo_path(ctx, e.path):
                    continue
                if not _may_precede(f, top, r):
                    continue
                if any(e.path[:len(x)] == x for x in exempt_paths):
                    continue
                # a write that only happens together with a write of an exempt (provably
                # unchanged) path belongs to a status change, which the raise excludes
                if any(w.path[:len(x)] == x and w.guards and w.guards <= e.guards
                       for x in exempt_paths for w in effs):
                    continue
                if _never_rejected(ctx, f, e):
                    continue
                bad.setdefault((dotted(e.path), e.op, _via(f, top)), e)
            inst = (q, norm_src(r))
            if not bad:
                res.holds(inst)
            for (p, op, via), e in sorted(bad.items()):
                res.violated((q, norm_src(r), p, op, via), Finding(
                    "F6", f.file, q, "%s precedes %s [via %s]" % (p, norm_src(r), via),
                    "%s of %s (in %s, reached through %s) may execute before the request is "
                    "rejected by '%s'" % (op, p, e.func.qualname, via, norm_src(r)),
                    line=r.lineno, chain=e.chain()))
    return res


def _never_rejected(ctx, f, e):
    """The write happens only for (requested, previous, new) status triples for which the
    verdict of request_workflow_status is 'accepted': its guards compare those three values,
    and the verdict table (rule F9's exhaustive evaluation) rejects none of the triples that
    satisfy them."""
    if f.name != "request_workflow_status":
        return False
    try:
        from sa import requests as RQ
        table = ctx.get("f9_verdicts", lambda: RQ.verdicts(ctx.prog, f))
        idx, before, after = RQ._split(f)
    except AnalysisError:
        return False
    req = [p_ for p_ in f.params if p_ not in ("self", "cls")][0]
    role = {req: 0}
    role.update({b: 1 for b in before})
    role.update({a_: 2 for a_ in after})
    own = [a_ for q_, a_ in e.guards if q_ == f.qualname]
    tests = []
    for a_ in own:
        if len(a_) < 3 or a_[1] not in role:
            continue
        i = role[a_[1]]
        if a_[0] in ("in", "notin") and isinstance(a_[2], (set, frozenset)):
            tests.append((i, a_[0], a_[2]))
        elif a_[0] in ("==", "!=") and isinstance(a_[2], str):
            tests.append((i, "in" if a_[0] == "==" else "notin", frozenset([a_[2]])))
        elif a_[0] in ("==", "!=") and isinstance(a_[2], tuple) and len(a_[2]) == 2 and \
                a_[2][0] == "src" and a_[2][1] in role:
            tests.append((i, "same" if a_[0] == "==" else "differs", role[a_[2][1]]))
    if not any(t[0] == 2 or (t[1] in ("same", "differs") and t[2] == 2) for t in tests):
        return False   # nothing ties the write to the outcome of the request

    def ok(tr):
        for i, op, st in tests:
            if op == "same":
                if tr[i] != tr[st]:
                    return False
            elif op == "differs":
                if tr[i] == tr[st]:
                    return False
            elif (tr[i] in st) != (op == "in"):
                return False
        return True
    hit = [tr for tr in table if ok(tr)]
    return bool(hit) and all(table[tr] == "silent" for tr in hit)


def _via(f, top):
    """The statement of the entry point through which a write happens, as a stable phrase:
    for a loop its iterated expression (which tasks are visited), else the statement."""
    st = top
    while st is not None and getattr(st, "_parent", None) is not f.node:
        st = getattr(st, "_parent", None)
    st = st if st is not None else top
    from sa.core import untag, subst_locals

    def iterated(loop):
        # what the loop runs over, seen through a local the collection was put in first
        try:
            return untag(unparse(subst_locals(f.node, loop.iter)))
        except Exception:  # noqa: B902
            return untag(unparse(loop.iter))
    if isinstance(st, ast.For):
        return iterated(st)
    if isinstance(st, ast.If):
        # the innermost loop / statement holding the write inside the conditional
        inner = top
        while inner is not None and inner is not st and not isinstance(inner, ast.For):
            inner = getattr(inner, "_parent", None)
        if isinstance(inner, ast.For):
            return iterated(inner)
    txt = untag(norm_src(st))
    return txt if len(txt) <= 90 else txt[:87] + "..."


def _may_precede(f, a, b):
    """Statement a can execute before statement b in one activation (textual order, not in
    mutually exclusive branches of the same if)."""
    if not textually_before(a, b):
        # loops: a later statement in the same loop body can precede on the next iteration
        return False
    # exclusive branches
    pa, pb = a, b
    anc_a = []
    while pa is not None and pa is not f.node:
        anc_a.append(pa)
        pa = getattr(pa, "_parent", None)
    while pb is not None and pb is not f.node:
        par = getattr(pb, "_parent", None)
        if isinstance(par, ast.If) and par in anc_a:
            # both under the same if: exclusive when in different arms
            in_body_b = pb in par.body
            ia = anc_a.index(par)
            child_a = anc_a[ia - 1] if ia > 0 else None
            in_body_a = child_a in par.body if child_a is not None else None
            if in_body_a is not None and in_body_a != in_body_b and child_a is not par.test:
                return False
        pb = par
    # a terminates before b?  (a inside a block that returns/raises before reaching b)
    return True


def _unchanged_paths(ctx, f, fg, r):
    """Paths proven unchanged when the raise executes: its guard compares a read of the path
    taken before the writes with one taken after them."""
    out = []
    atoms = fg.atoms(r)
    from sa.core import subst_locals

    def resolved(txt):
        try:
            return unparse(subst_locals(f.node, ast.parse(txt, mode="eval").body))
        except (SyntaxError, ValueError):
            return txt
    def scan(ats):
        for a in ats:
            if a[0] == "==" and isinstance(a[2], tuple) and a[2][0] == "src":
                t1, t2 = resolved(a[1]), resolved(a[2][1])
                if t1 == t2 and "get_workflow_status" in t1:
                    return True
        return False
    if scan(atoms):
        out.append(("WS", "status"))
    else:
        # the comparison may hide in a boolean local (is_unchanged = ... and before == after)
        alts = expand_alternatives(f, fg, atoms)
        if alts and all(scan(alt) for alt in alts):
            out.append(("WS", "status"))
    return out


# ====================================================================== F7
def rule_F7(ctx):
    res = RuleResult("F7", "every table-driven assignment of a completed workflow status is "
                           "followed by the unreachable-join check")
    prog = ctx.prog
    completed = status_set(ctx, "COMPLETED_STATUSES")
    table = ctx.facts.wf
    can_complete = any(t in completed for row in table.values() for t in row.values())
    seen = set()
    for e in effects_of(ctx):
        if e.path != ("WS", "status"):
            continue
        v = assigned_value(e)
        if v is None or not value_is_table_lookup(prog, e.func, v, "WORKFLOW_STATE_MACHINE_DATA"):
            continue
        if e.func.qualname in seen:
            continue
        seen.add(e.func.qualname)
        inst = (e.func.qualname,)
        if not can_complete:
            res.holds(inst, "table has no completed target")
            continue
        checks = [n for n in ast.walk(e.func.node) if isinstance(n, ast.Call)
                  and callee_name(n) == "get_unreachable_barriers"]
        fg = FuncGuards(prog, e.func)
        ok = False
        for c in checks:
            if not textually_before(e.node, c):
                continue
            # the check must run whenever the assignment made the workflow succeeded: some
            # alternative of its guard consists only of conditions that hold for status ==
            # succeeded, of the assignment's own preconditions, and of 'status changed'
            pre = list(fg.atoms(e.node))
            for alt_ in expand_alternatives(e.func, fg, pre):
                pre.extend(a_ for a_ in alt_ if a_ not in pre)
            # what denotes the workflow status here: the assigned attribute and the value
            tgt_txt = {unparse(t) for t in getattr(e.node, "targets", [])}
            if isinstance(v, ast.Name):
                tgt_txt.add(v.id)
            for atoms in expand_alternatives(e.func, fg, fg.atoms(c)):
                extra = [a for a in atoms if not (a[1] in tgt_txt and _holds_for_succeeded(a))]
                extra = [a for a in extra if a not in pre and not _is_changed_guard(a)]
                if not extra:
                    ok = True
        if ok:
            res.holds(inst)
        else:
            # which completed statuses can this function assign?
            res.violated(inst, Finding(
                "F7", e.func.file, e.func.qualname, "table-driven status assignment without "
                "unreachable-join check",
                "assigns a workflow status from the table (completed targets reachable) but never "
                "calls get_unreachable_barriers afterwards: a workflow can complete (succeed) "
                "with a partially satisfied join that can no longer run",
                line=e.node.lineno))
    return res


# ====================================================================== F10
def rule_F10(ctx):
    """A workflow that the table has just made canceled is not turned into failed by the
    unreachable-join override: the cancellation itself is what keeps the remaining branches
    from satisfying their joins.  Every override site (status := failed under 'there are
    unreachable barriers') must be guarded by a condition that excludes canceled."""
    res = RuleResult("F10", "the unreachable-join override excludes a canceled workflow: it "
                            "fires for succeeded / paused-and-finished completions only")
    prog = ctx.prog
    n = 0
    seen_f10 = set()
    for e in effects_of(ctx):
        if e.path != ("WS", "status"):
            continue
        v = assigned_value(e)
        try:
            folded = prog.fold(v, e.func.module) if v is not None else None
        except NotFoldable:
            folded = None
        own = [a for q, a in e.guards if q == e.func.qualname]
        if folded != "failed" or not any(a[0] == "truthy" and "unreachable" in a[1] for a in own):
            continue
        n += 1
        inst = (e.func.qualname, norm_src(e.node))
        if inst in seen_f10:
            continue
        seen_f10.add(inst)
        excluded = False
        for a in own:
            if a[0] == "==" and isinstance(a[2], str) and a[2] != "canceled" and "status" in a[1]:
                excluded = True
            if a[0] == "!=" and a[2] == "canceled" and "status" in a[1]:
                excluded = True
            if a[0] == "in" and isinstance(a[2], frozenset) and "canceled" not in a[2] \
                    and "status" in a[1]:
                excluded = True
            if a[0] == "notin" and isinstance(a[2], frozenset) and "canceled" in a[2] \
                    and "status" in a[1]:
                excluded = True
        if excluded:
            res.holds(inst)
        else:
            res.violated(inst, site_finding(
                "F10", e, "the unreachable-join override can replace a status the table has just "
                "set to canceled by failed (guards: %s): a canceled workflow is reported failed "
                "merely because the cancellation kept a join's other branches from completing"
                % fmt_atoms([a for a in own if "status" in str(a[1]) and "current" not in str(a[1])])))
    if not n:
        raise AnalysisError("unreachable-join override (status := failed) not found")
    return res


# ====================================================================== F11
def rule_F11(ctx):
    """An accepted rerun has something to do: the forced status write 'resuming' in the rerun
    path is control-dependent on a non-empty set of rerun candidates (or of work that was still
    due).  Unconditionally it turns a completed workflow that has nothing to rerun - e.g. a
    succeeded one under the default request - into a resuming workflow that no event will ever
    move again."""
    res = RuleResult("F11", "the rerun path moves the workflow to resuming only when there is "
                            "at least one task to rerun or to continue")
    prog = ctx.prog
    entry = "conducting.WorkflowConductor.request_workflow_rerun"
    n = 0
    for e in effects_of(ctx, entry):
        if e.path != ("WS", "status"):
            continue
        v = assigned_value(e)
        try:
            folded = prog.fold(v, e.func.module) if v is not None else None
        except NotFoldable:
            folded = None
        if folded != "resuming":
            continue
        n += 1
        f = e.func
        inst = (f.qualname, norm_src(e.node))
        own = [a for q, a in e.guards if q == f.qualname]

        def derives_from_candidates(name, depth=0, seen=None):
            seen = seen if seen is not None else set()
            if name in seen or depth > 5:
                return False
            seen.add(name)
            if name in f.params and name not in ("self", "cls"):
                return True
            for d in local_def(f.node, name):
                val = getattr(d, "value", None)
                if val is None:
                    continue
                if any(callee_name(c) in ("get_terminal_tasks", "get_staged_tasks")
                       for c in ast.walk(val) if isinstance(c, ast.Call)):
                    return True
                for x in ast.walk(val):
                    if isinstance(x, ast.Name) and derives_from_candidates(x.id, depth + 1, seen):
                        return True
            return False

        def flat(ats):
            for a in ats:
                if a[0] in ("or", "and"):
                    for alt in a[1]:
                        for x in flat(alt):
                            yield x
                else:
                    yield a
        ok = any(a[0] == "truthy" and a[1].isidentifier() and derives_from_candidates(a[1])
                 for a in flat(own))
        if ok:
            res.holds(inst)
        else:
            res.violated(inst, site_finding(
                "F11", e, "the workflow status is forced to resuming whether or not the request "
                "selected any task to rerun or continue (guards: %s): a completed workflow with "
                "nothing to rerun is left resuming for ever" % fmt_atoms(
                    [a for a in own if a[0] in ("truthy", "falsy")]),
                construct="resuming without a candidate: " + norm_src(e.node)))
    if not n:
        raise AnalysisError("request_workflow_rerun no longer sets the status to resuming")
    return res


def _holds_for_succeeded(a):
    """The atom is a condition on a status that is true when that status is 'succeeded'."""
    if "status" not in str(a[1]):
        return False
    if a[0] == "==":
        return a[2] == "succeeded"
    if a[0] == "!=":
        return isinstance(a[2], str) and a[2] != "succeeded"
    if a[0] == "in" and isinstance(a[2], frozenset):
        return "succeeded" in a[2]
    if a[0] == "notin" and isinstance(a[2], frozenset):
        return "succeeded" not in a[2]
    return False


def _is_changed_guard(a):
    return a[0] in ("!=",)


# ====================================================================== F8
GRAPH_MUTATORS = ("add_task", "update_task", "add_transition", "update_transition", "set_barrier")


def rule_F8(ctx):
    res = RuleResult("F8", "the composed graph is written only by the composer")
    prog = ctx.prog
    gcls = prog.cls("graphing.WorkflowGraph")
    muts = [m for m in GRAPH_MUTATORS if m in gcls.methods]
    if len(muts) < 3:
        raise AnalysisError("graph mutator methods vanished from graphing.WorkflowGraph")
    for f in prog.all_functions():
        for n in ast.walk(f.node):
            if isinstance(n, ast.Call) and isinstance(n.func, ast.Attribute) and n.func.attr in muts:
                inst = (f.qualname, norm_src(n))
                mod = f.module.short
                if mod.startswith("composers.") or mod == "graphing":
                    res.holds(inst)
                else:
                    res.violated(inst, Finding(
                        "F8", f.file, f.qualname, norm_src(n),
                        "graph mutator %s called outside the composer: the graph is no longer "
                        "immutable after composition" % n.func.attr, line=n.lineno))
    # no write reaches the data of the composed graph from any API except its construction
    a = ctx.absint
    for entry, evs in a.entry_effects.items():
        for e in evs:
            if e.kind != "effect" or e.path[:3] != ("WC", "_graph", "nx"):
                continue
            inst = ("graph data", entry, dotted(e.path), e.op, e.func.qualname)
            if entry.endswith(".graph") or entry.endswith(".deserialize") or entry.endswith(
                    ".restore") or entry.endswith(".__init__"):
                res.holds(inst, "composition")
            else:
                res.violated(inst, site_finding(
                    "F8", e, "%s writes %s, data of the composed graph (via %s), after "
                    "composition" % (entry.split(".", 1)[1], dotted(e.path), e.via)))
    return res


# ====================================================================== O1 / O2
def _mutated_paths(ctx):
    out = []
    for e in effects_of(ctx):
        if e.op in MUTATING_OPS:
            out.append(e)
    return out


def _is_prefix(p, q):
    return q[:len(p)] == p


def rule_O1(ctx):
    res = RuleResult("O1", "no object has two persistent homes: what is stored into the state "
                           "is fresh, not a reference to something already stored")
    a = ctx.absint
    muts = _mutated_paths(ctx)
    seen = set()
    for entry, al in all_events(ctx):
        if al.kind != "alias":
            continue
        if len(al.dst) < 2 or len(al.src) < 2 or al.dst == al.src:
            continue
        if a.is_scalar_path(al.dst) or a.is_scalar_path(al.src):
            continue
        key = (al.func.qualname, al.dst, al.src)
        if key in seen:
            continue
        seen.add(key)
        inst = (al.func.qualname, dotted(al.dst), dotted(al.src))
        witnesses = [m for m in muts if _is_prefix(al.dst, m.path) or _is_prefix(al.src, m.path)]
        if not witnesses:
            res.holds(inst, "shared but never mutated in place")
            continue
        w = witnesses[0]
        res.violated(inst, Finding(
            "O1", al.func.file, al.func.qualname,
            "store %s <- %s" % (dotted(al.dst), dotted(al.src)),
            "the object at %s is also stored at %s (no copy), and %s is mutated in place by %s "
            "(%s): live and restored conductors diverge, a stored record changes after the fact"
            % (dotted(al.src), dotted(al.dst), dotted(w.path), w.func.qualname, w.op),
            line=al.node.lineno, chain=al.chain()))
    # obligations: every store of a non-scalar into the state that was examined
    n = 0
    for e in effects_of(ctx):
        if e.value and any(t[0] in ("F", "P") for t in e.value):
            n += 1
            res.holds(("store", dotted(e.path), e.op, e.func.qualname, norm_src(e.node)))
    return res


def rule_O2(ctx):
    res = RuleResult("O2", "no persistent object is mutated through a borrowed reference "
                           "(merge_dicts only ever mutates fresh copies)")
    prog = ctx.prog
    f = prog.find_function(MERGE_FN)
    if f is None:
        raise AnalysisError("anchor function vanished: %s" % MERGE_FN)
    viol = merge_contract_violations(f)
    if viol:
        for n, msg in viol:
            res.violated(("contract", norm_src(n)), Finding(
                "O2", f.file, f.qualname, norm_src(n),
                "merge_dicts no longer only mutates its first argument: %s" % msg, line=n.lineno))
    else:
        res.holds(("contract", MERGE_FN), "mutates only its first argument")
    # every merge_dicts call site reached from an entry point
    a = ctx.absint
    sites = {}
    for (caller, nid), callees in a.call_edges.items():
        if MERGE_FN in callees:
            fn, node = a.call_nodes[nid]
            sites[nid] = (fn, node)
    bad = {}
    for entry, e in all_events(ctx):
        if e.kind == "effect" and e.via == "held":
            bad.setdefault(id(e.node), e)
    for nid, (fn, node) in sorted(sites.items(), key=lambda x: (x[1][0].qualname, x[1][1].lineno)):
        inst = (fn.qualname, norm_src(node))
        if nid in bad:
            e = bad[nid]
            res.violated(inst, site_finding(
                "O2", e, "merge_dicts deep-mutates its first argument, which holds a reference "
                "into the stored %s (no copy was made): the query rewrites persistent state"
                % dotted(e.path[:-1] if e.path[-1] == "*" else e.path)))
        else:
            res.holds(inst, "first argument owns everything it references")
    for nid, e in bad.items():
        if nid not in sites:
            res.violated((e.func.qualname, norm_src(e.node)), site_finding(
                "O2", e, "mutation through a borrowed reference into %s" % dotted(e.path)))
    return res


# ====================================================================== O3
def rule_O3(ctx):
    res = RuleResult("O3", "nothing mutable is shared across the persistence boundary or with "
                           "the caller: serialize / get_next_tasks return copies, deserialize "
                           "stores copies")
    a = ctx.absint

    def containerish(path):
        return any(_is_prefix(path, c) for c in a.container_use) and not a.is_scalar_path(path)

    for q in ("conducting.WorkflowConductor.serialize", "conducting.WorkflowState.serialize",
              "conducting.WorkflowConductor.get_next_tasks",
              "conducting.WorkflowConductor.get_workflow_output",
              "conducting.WorkflowConductor.get_workflow_input",
              "conducting.WorkflowConductor.get_workflow_parent_context",
              "conducting.WorkflowConductor.get_workflow_initial_context"):
        if q not in a.entry_rets:
            raise AnalysisError("anchor entry point vanished: %s" % q)
        leaks = sorted({t[1] for t, _ in a.reach(a.entry_rets[q]) if t[0] == "P" and containerish(t[1])})
        f = ctx.prog.function(q)
        if leaks:
            for p in leaks:
                res.violated((q, dotted(p)), Finding(
                    "O3", f.file, q, "returns reference to %s" % dotted(p),
                    "the returned value holds a live reference to persistent %s (no deep copy)"
                    % dotted(p), line=f.node.lineno))
        else:
            res.holds((q, "returns copies"))
    for q in ("conducting.WorkflowState.deserialize", "conducting.WorkflowConductor.deserialize"):
        f = ctx.prog.function(q)
        for e in effects_of(ctx, q):
            if len(e.path) != 2:
                continue
            raw = [t for t, _ in a.reach(e.value) if t[0] == "O" and str(t[1]).startswith("arg:")]
            inst = (q, dotted(e.path))
            if raw and containerish(e.path):
                res.violated(inst, site_finding(
                    "O3", e, "%s is restored from the caller's data without a deep copy" % dotted(
                        e.path)))
            else:
                res.holds(inst)
    return res


# ====================================================================== S1
def _self_attr_reads(fnode, selfname):
    return {n.attr for n in ast.walk(fnode) if isinstance(n, ast.Attribute)
            and isinstance(n.value, ast.Name) and n.value.id == selfname
            and isinstance(n.ctx, ast.Load)}


def _transitive_self_reads(prog, cls, f, depth=3):
    out = set()
    todo = [(f, 0)]
    seen = set()
    while todo:
        g, d = todo.pop()
        if g.qualname in seen:
            continue
        seen.add(g.qualname)
        selfname = g.params[0] if g.params else "self"
        reads = _self_attr_reads(g.node, selfname)
        for r in reads:
            m = prog.lookup_method(cls, r)
            if m is not None:
                if d < depth:
                    todo.append((m, d + 1))
            else:
                out.add(r)
    return out


def rule_S1(ctx):
    res = RuleResult("S1", "the persisted form is complete: every run-time state attribute is "
                           "written by serialize and restored by deserialize")
    prog = ctx.prog
    a = ctx.absint
    # ---- WorkflowState
    ws = prog.cls("conducting.WorkflowState")
    state_attrs = set()
    for e in effects_of(ctx):
        if e.path[0] == "WS" and len(e.path) >= 2:
            state_attrs.add(e.path[1])
    state_attrs.discard("conductor")
    ser = prog.lookup_method(ws, "serialize")
    des = prog.lookup_method(ws, "deserialize")
    if ser is None or des is None:
        raise AnalysisError("WorkflowState.serialize/deserialize vanished")
    ser_reads = _transitive_self_reads(prog, ws, ser)
    des_sets = {e.path[1] for e in effects_of(ctx, des.qualname) if e.path[0] == "WS" and len(e.path) == 2}
    ser_keys = _dict_keys_written(ser)
    des_keys = _data_keys_read(des)
    memo = memo_attrs(ctx)
    for attr in sorted(state_attrs):
        inst = ("WorkflowState", attr)
        if ("WS", attr) in memo and attr not in ser_reads:
            if memo[("WS", attr)] is None:
                res.holds(inst, "derived cache: empty after construction, reset by every "
                                "writer of what it is computed from")
            else:
                res.violated(inst, Finding(
                    "S1", ser.file, ser.qualname, "attribute %s" % attr,
                    "run-time attribute %s is not persisted and can go stale: a live conductor "
                    "and one restored from its persisted form then disagree"
                    % memo[("WS", attr)], line=ser.node.lineno))
            continue
        if attr not in ser_reads:
            res.violated(inst, Finding(
                "S1", ser.file, ser.qualname, "attribute %s" % attr,
                "run-time state attribute WorkflowState.%s is written by the engine but not "
                "read by serialize(): lost on persist/restore" % attr, line=ser.node.lineno))
        elif attr not in des_sets:
            res.violated(inst, Finding(
                "S1", des.file, des.qualname, "attribute %s" % attr,
                "run-time state attribute WorkflowState.%s is serialised but not restored by "
                "deserialize()" % attr, line=des.node.lineno))
        else:
            res.holds(inst)
    for k in sorted(ser_keys ^ des_keys):
        res.violated(("WorkflowState", "key", k), Finding(
            "S1", ser.file, ser.qualname, "key %s" % k,
            "serialised key %r is %s" % (k, "never read back by deserialize()" if k in ser_keys
                                         else "read by deserialize() but never written"),
            line=ser.node.lineno))
    for k in sorted(ser_keys & des_keys):
        res.holds(("WorkflowState", "key", k))
    # ---- WorkflowConductor
    wc = prog.cls("conducting.WorkflowConductor")
    runtime = set()
    init = prog.lookup_method(wc, "__init__")
    for e in effects_of(ctx):
        if e.path[0] == "WC" and len(e.path) >= 2:
            if len(e.path) > 2 or (e.func is not init):
                runtime.add(e.path[1])
    runtime.discard("_workflow_state")
    runtime.add("_workflow_state")
    cser = prog.lookup_method(wc, "serialize")
    cdes = prog.lookup_method(wc, "deserialize")
    rest = prog.lookup_method(wc, "restore")
    if cser is None or cdes is None or rest is None:
        raise AnalysisError("WorkflowConductor.serialize/deserialize/restore vanished")
    cser_reads = _transitive_self_reads(prog, wc, cser)
    rest_sets = {e.path[1] for e in effects_of(ctx, cdes.qualname) if e.path[0] == "WC" and len(e.path) == 2}
    rest_sets |= {"_workflow_state"} if any(
        e.path == ("WS",) for e in effects_of(ctx, cdes.qualname)) else set()
    for attr in sorted(runtime):
        inst = ("WorkflowConductor", attr)
        if ("WC", attr) in memo and attr not in cser_reads:
            if memo[("WC", attr)] is None:
                res.holds(inst, "derived cache: empty after construction, reset by every "
                                "writer of what it is computed from")
            else:
                res.violated(inst, Finding(
                    "S1", cser.file, cser.qualname, "attribute %s" % attr,
                    "run-time attribute %s is not persisted and can go stale: a live conductor "
                    "and one restored from its persisted form then disagree"
                    % memo[("WC", attr)], line=cser.node.lineno))
            continue
        if attr not in cser_reads:
            res.violated(inst, Finding(
                "S1", cser.file, cser.qualname, "attribute %s" % attr,
                "run-time state attribute WorkflowConductor.%s is not reached by serialize()"
                % attr, line=cser.node.lineno))
        elif attr not in rest_sets:
            res.violated(inst, Finding(
                "S1", cdes.file, cdes.qualname, "attribute %s" % attr,
                "run-time state attribute WorkflowConductor.%s is not restored by deserialize()"
                % attr, line=cdes.node.lineno))
        else:
            res.holds(inst)
    ck_w, ck_r = _dict_keys_written(cser), _data_keys_read(cdes)
    for k in sorted(ck_w - ck_r):
        res.violated(("WorkflowConductor", "key", k), Finding(
            "S1", cser.file, cser.qualname, "key %s" % k,
            "serialised key %r is never read back by deserialize()" % k, line=cser.node.lineno))
    for k in sorted(ck_w & ck_r):
        res.holds(("WorkflowConductor", "key", k))
    return res


def _dict_keys_written(f):
    keys = set()
    for n in ast.walk(f.node):
        if isinstance(n, ast.Call) and isinstance(n.func, ast.Name) and n.func.id == "dict":
            for k in n.keywords:
                if k.arg:
                    keys.add(k.arg)
        if isinstance(n, ast.Dict):
            for k in n.keys:
                if isinstance(k, ast.Constant) and isinstance(k.value, str):
                    keys.add(k.value)
        if isinstance(n, ast.Assign):
            for t in n.targets:
                if isinstance(t, ast.Subscript) and isinstance(t.slice, ast.Constant):
                    keys.add(t.slice.value)
    return keys


def _data_keys_read(f):
    keys = set()
    data = f.params[-1]
    for n in ast.walk(f.node):
        if isinstance(n, ast.Subscript) and isinstance(n.value, ast.Name) and n.value.id == data \
                and isinstance(n.slice, ast.Constant):
            keys.add(n.slice.value)
        if isinstance(n, ast.Call) and isinstance(n.func, ast.Attribute) and n.func.attr == "get" \
                and isinstance(n.func.value, ast.Name) and n.func.value.id == data and n.args \
                and isinstance(n.args[0], ast.Constant):
            keys.add(n.args[0].value)
    return keys

"""E6 - exception-escape analysis: rules X1 (evaluator contract), X2 (containment at the API),
X3 (record and fail)."""

import ast

from sa.core import AnalysisError, ClassInfo, NotFoldable, norm_src, unparse
from sa.guards import FuncGuards, callee_name, terminates, textually_before
from sa.report import Finding, RuleResult

EVAL_FN = "expressions.base.evaluate"
API_ENTRIES = [
    "conducting.WorkflowConductor.get_next_tasks",
    "conducting.WorkflowConductor.update_task_state",
    "conducting.WorkflowConductor.request_workflow_status",
    "conducting.WorkflowConductor.render_workflow_output",
    "conducting.WorkflowConductor.request_workflow_rerun",
    "conducting.WorkflowConductor.workflow_state",
]


# ---------------------------------------------------------------------- exception classes
def exc_bases(prog, name_expr, module):
    """Names of the class and all its bases for an exception class expression."""
    tgt = prog.resolve_name_expr(name_expr, module)
    if isinstance(tgt, ClassInfo):
        names = set()
        for c in prog.mro(tgt):
            names.add(c.name)
            for fb in c.foreign_bases:
                names.add(fb.split(".")[-1])
        names.add("Exception")
        names.add("BaseException")
        return names
    n = unparse(name_expr).split(".")[-1]
    builtin = {
        "Exception": {"Exception", "BaseException"},
        "BaseException": {"BaseException"},
        "TypeError": {"TypeError", "Exception", "BaseException"},
        "ValueError": {"ValueError", "Exception", "BaseException"},
        "KeyError": {"KeyError", "LookupError", "Exception", "BaseException"},
        "AttributeError": {"AttributeError", "Exception", "BaseException"},
        "IndexError": {"IndexError", "LookupError", "Exception", "BaseException"},
    }
    return builtin.get(n, {n, "Exception", "BaseException"})


def handler_types(h):
    if h.type is None:
        return [None]
    if isinstance(h.type, ast.Tuple):
        return list(h.type.elts)
    return [h.type]


def handler_catches(prog, h, module, raised_names):
    """raised_names: the class name set (class + bases) of what is raised."""
    for t in handler_types(h):
        if t is None:
            return True
        tn = unparse(t).split(".")[-1]
        if tn in raised_names:
            return True
    return False


def handler_swallows(h):
    """The handler does not unconditionally re-raise."""
    return not terminates_with_raise(h.body)


def terminates_with_raise(stmts):
    return bool(stmts) and isinstance(stmts[-1], ast.Raise)


def containing_handler(prog, f, fg, node, raised_names):
    """Innermost try around node in f whose handlers catch the raised class and swallow it."""
    for t in fg.try_context(node):
        for h in t.handlers:
            if handler_catches(prog, h, f.module, raised_names):
                if handler_swallows(h):
                    return t, h
                return None  # re-raised: propagates (possibly converted)
    return None


# ---------------------------------------------------------------------- primitives
class Primitive(object):
    def __init__(self, func, node, kind, raised, what):
        self.func, self.node, self.kind, self.raised, self.what = func, node, kind, raised, what


def is_eval_call(prog, f, n):
    if not isinstance(n, ast.Call):
        return False
    tgt = prog.resolve_name_expr(n.func, f.module)
    return getattr(tgt, "qualname", None) == EVAL_FN


def evaluated_names(prog, f):
    """Local names (and subscript/attr stores) that hold the result of an evaluate() call."""
    names = set()
    for n in ast.walk(f.node):
        if isinstance(n, ast.Assign) and any(is_eval_call(prog, f, c) for c in ast.walk(n.value)):
            for t in n.targets:
                if isinstance(t, ast.Name):
                    names.add(t.id)
    return names


def primitives(prog, engine_modules):
    out = []
    eval_exc = exc_bases(prog, ast.parse("exc.ExpressionEvaluationException", mode="eval").body,
                         prog.module("conducting"))
    for f in prog.all_functions():
        if f.module.short not in engine_modules:
            continue
        ev_names = None
        fg = None
        for n in ast.walk(f.node):
            if is_eval_call(prog, f, n):
                out.append(Primitive(f, n, "evaluate", eval_exc, "evaluation of %s" % unparse(
                    n.args[0]) if n.args else "evaluation"))
            elif isinstance(n, ast.Raise) and n.exc is not None:
                if ev_names is None:
                    ev_names = evaluated_names(prog, f)
                    fg = FuncGuards(prog, f)
                if not ev_names:
                    continue
                mentions = set()
                for a in fg.atoms(n):
                    mentions |= _names_in_atom(a)
                if mentions & ev_names:
                    cls = n.exc.func if isinstance(n.exc, ast.Call) else n.exc
                    out.append(Primitive(f, n, "value-raise", exc_bases(prog, cls, f.module),
                                         "check of an evaluated value: %s" % norm_src(n)))
    return out


def _names_in_atom(a):
    out = set()
    if a[0] in ("or", "and"):
        for alt in a[1]:
            for x in alt:
                out |= _names_in_atom(x)
        return out
    if len(a) < 2 or not isinstance(a[1], str):
        return out
    try:
        tree = ast.parse(a[1], mode="eval")
        out |= {x.id for x in ast.walk(tree) if isinstance(x, ast.Name)}
    except (SyntaxError, ValueError):
        pass
    return out


# ---------------------------------------------------------------------- call graph
class CallGraph(object):
    def __init__(self, absint):
        self.fwd = {}  # caller qualname -> list of (call node, callee qualname)
        for (caller, nid), callees in absint.call_edges.items():
            fn, node = absint.call_nodes[nid]
            for c in callees:
                self.fwd.setdefault(caller, []).append((node, c))

    def reaches(self, targets):
        """Functions from which some target function is reachable."""
        rev = {}
        for caller, edges in self.fwd.items():
            for node, callee in edges:
                rev.setdefault(callee, set()).add(caller)
        seen = set(targets)
        todo = list(targets)
        while todo:
            x = todo.pop()
            for c in rev.get(x, ()):
                if c not in seen:
                    seen.add(c)
                    todo.append(c)
        return seen

    def chains(self, entry, target, relevant, limit=200):
        """Call chains [(caller qualname, call node), ...] from entry to target."""
        out = []

        def dfs(fn, path, onpath):
            if len(out) >= limit:
                return
            if fn == target:
                out.append(list(path))
                # do not stop: recursion may continue, but chains through target again add nothing
                return
            for node, callee in self.fwd.get(fn, ()):
                if callee not in relevant or callee in onpath:
                    continue
                path.append((fn, node))
                onpath.add(callee)
                dfs(callee, path, onpath)
                onpath.discard(callee)
                path.pop()

        if entry == target:
            return [[]]
        dfs(entry, [], {entry})
        return out


# ====================================================================== X2
def rule_X2(ctx, entries=None):
    res = RuleResult("X2", "no expression failure escapes a conductor API call: every call "
                           "chain from an entry point to an evaluation (or to a check of an "
                           "evaluated value) passes a handler that catches it")
    prog = ctx.prog
    a = ctx.absint
    cg = ctx.get("callgraph", lambda: CallGraph(a))
    prims = primitives(prog, ("conducting", "specs.native.v1.models", "specs.base", "machines"))
    res.facts["evaluate_sites"] = sum(1 for p in prims if p.kind == "evaluate")
    res.facts["value_raises"] = sum(1 for p in prims if p.kind == "value-raise")
    entries = entries or [e for e in API_ENTRIES if prog.find_function(e) is not None]
    if len(entries) < 4:
        raise AnalysisError("conductor API entry points vanished")
    fgs = {}

    def fg(f):
        if f.qualname not in fgs:
            fgs[f.qualname] = FuncGuards(prog, f)
        return fgs[f.qualname]

    reached_any = set()
    handlers = {}
    ctx._x2_handlers = handlers
    for p in prims:
        relevant = cg.reaches({p.func.qualname})
        for entry in entries:
            if entry not in relevant:
                continue
            for chain in cg.chains(entry, p.func.qualname, relevant):
                reached_any.add(id(p.node))
                frames = [(prog.find_function(q) or _nested(prog, q), node) for q, node in chain]
                frames.append((p.func, p.node))
                contained = None
                for f, node in frames:
                    if f is None:
                        continue
                    c = containing_handler(prog, f, fg(f), node, p.raised)
                    if c is not None:
                        contained = (f, c[1])
                        break
                chain_names = [q for q, _ in chain] + [p.func.qualname]
                inst = (entry.split(".")[-1], p.func.qualname, norm_src(p.node),
                        "->".join(x.split(".")[-1] for x in chain_names))
                if contained is not None:
                    handlers[id(contained[1])] = contained
                    res.holds(inst, "caught in %s" % contained[0].qualname)
                else:
                    # keyed by function and kind of primitive, not by the expression: which
                    # expression of a function escapes changes with every refactoring of it
                    con = "uncontained evaluation" if p.kind == "evaluate" else \
                        "uncontained raise on an evaluated value"
                    subject = _subject(prog, p.func, p.node) if p.kind == "evaluate" else None
                    res.violated(inst, Finding(
                        "X2", p.func.file, p.func.qualname, con,
                        norm_src(p.node) + ": %s can raise %s and no frame on the call chain from %s catches it: the "
                        "exception escapes the API call, nothing is recorded and the workflow "
                        "keeps its status" % (p.what, sorted(p.raised - {"Exception", "BaseException"})[:2],
                                              entry.split(".", 1)[1]),
                        line=p.node.lineno, chain=chain_names,
                        extra={"subject": subject} if subject else None))
    res.facts["primitives_reached"] = len(reached_any)
    return res


def _subject(prog, f, call):
    """What an evaluate() call evaluates, as a path of constant keys / attribute names of the
    data it is read from (`entry['retry']['when']` -> 'retry.when'), seen through local
    copies - a description that survives moving the call to another function."""
    from sa.core import subst_locals
    if not (isinstance(call, ast.Call) and call.args):
        return None
    try:
        e = subst_locals(f.node, call.args[0])
    except Exception:  # noqa: B902
        e = call.args[0]
    parts = []
    while True:
        if isinstance(e, ast.Subscript) and isinstance(e.slice, ast.Constant) and isinstance(
                e.slice.value, str):
            parts.append(e.slice.value)
            e = e.value
        elif isinstance(e, ast.Attribute):
            parts.append(e.attr)
            e = e.value
        elif isinstance(e, ast.Call) and isinstance(e.func, ast.Name) and e.func.id == "getattr" \
                and len(e.args) >= 2 and isinstance(e.args[1], ast.Constant):
            parts.append(str(e.args[1].value))
            e = e.args[0]
        elif isinstance(e, ast.Call) and isinstance(e.func, ast.Attribute) and e.func.attr == "get" \
                and e.args and isinstance(e.args[0], ast.Constant):
            parts.append(str(e.args[0].value))
            e = e.func.value
        else:
            break
    parts = list(reversed(parts))[-2:]
    return ".".join(parts) if parts else None


def _nested(prog, q):
    for nf in prog.nested_functions:
        if nf.qualname == q:
            return nf
    return None


# ====================================================================== X3
def rule_X3(ctx):
    res = RuleResult("X3", "every handler / error list that contains an expression failure "
                           "records it (log_error/log_errors) and fails the workflow")
    prog = ctx.prog
    cond = prog.module("conducting")
    # 1. the handlers that X2 found to contain an expression failure (in the conductor)
    if not hasattr(ctx, "_x2_handlers"):
        rule_X2(ctx)
    seen = set()
    for f, h in ctx._x2_handlers.values():
        if f.module.short == "conducting":
            _check_handler(prog, res, f, h, seen)
    # 1b. after get_next_tasks has seen a rendering error it returns nothing
    gnt = prog.find_function("conducting.WorkflowConductor.get_next_tasks")
    if gnt is not None:
        fg = FuncGuards(prog, gnt)
        flags = set()
        from sa.effects import error_only
        for s_ in ast.walk(gnt.node):
            if isinstance(s_, ast.Assign) and isinstance(s_.value, ast.Constant) and \
                    s_.value.value is True and error_only(gnt, fg, s_):
                flags |= {t.id for t in s_.targets if isinstance(t, ast.Name)
                          and not t.id.endswith("__done")}
        for n in ast.walk(gnt.node):
            if isinstance(n, ast.Return) and flags:
                atoms = fg.atoms(n)
                inst = (gnt.qualname, norm_src(n))
                guarded = any(a[0] == "falsy" and a[1] in flags for a in atoms)
                empty = n.value is None or (isinstance(n.value, (ast.List, ast.Tuple))
                                            and not n.value.elts)
                # returns that precede the rendering loop cannot have seen an error
                before = not any(isinstance(x, ast.ExceptHandler) and x._ord < n._ord
                                 for x in ast.walk(gnt.node))
                if guarded or empty or before or isinstance(n.value, ast.Name) and all(
                        x._ord > n._ord for x in ast.walk(gnt.node)
                        if isinstance(x, ast.ExceptHandler)):
                    res.holds(inst)
                else:
                    res.violated(inst, Finding(
                        "X3", gnt.file, gnt.qualname, norm_src(n),
                        "get_next_tasks can return tasks although a rendering error was seen "
                        "(return is not guarded by the error flag)", line=n.lineno))
    # 2. error lists returned by collect-errors functions
    collectors = _collectors(prog)
    res.facts["collectors"] = sorted(c.qualname for c in collectors)
    for f in [m_ for m_ in cond.classes["WorkflowConductor"].methods.values()
              if not prog.is_dead_helper(m_)]:
        for n in ast.walk(f.node):
            if isinstance(n, ast.Assign) and isinstance(n.value, ast.Call):
                cname = callee_name(n.value)
                col = [c for c in collectors if c.name == cname]
                if not col:
                    continue
                errs = _error_target(n, col[0])
                inst = (f.qualname, norm_src(n))
                if errs is None:
                    res.violated(inst, Finding(
                        "X3", f.file, f.qualname, norm_src(n),
                        "error list returned by %s is dropped" % col[0].qualname, line=n.lineno))
                    continue
                ok, why = _errors_consumed(prog, f, errs, n)
                if ok:
                    res.holds(inst, why)
                else:
                    res.violated(inst, Finding(
                        "X3", f.file, f.qualname, norm_src(n),
                        "errors returned by %s are not both logged and turned into a failed "
                        "workflow: %s" % (col[0].qualname, why), line=n.lineno))
    return res


def _check_handler(prog, res, f, h, seen):
    if id(h) in seen:
        return
    seen.add(id(h))
    inst = (f.qualname, "except %s" % (unparse(h.type) if h.type is not None else ""), h.lineno)
    logs = any(callee_name(c) in ("log_error", "log_errors") for c in _calls(h.body))
    fails = _requests_failed(prog, f, h.body)
    if not fails:
        # flag idiom: a boolean set in the handler, the request under 'if flag:' later
        flags = [t.id for s in h.body if isinstance(s, ast.Assign) and isinstance(
            s.value, ast.Constant) and s.value.value is True for t in s.targets
                 if isinstance(t, ast.Name)]
        # a flag raised outside the handler but only when the handler ran (the handler
        # produced a None / False sentinel that is tested afterwards)
        from sa.effects import error_only
        fg_h = FuncGuards(prog, f)
        for s_ in ast.walk(f.node):
            if isinstance(s_, ast.Assign) and isinstance(s_.value, ast.Constant) and \
                    s_.value.value is True and not fg_h.enclosing_handlers(s_) and \
                    error_only(f, fg_h, s_):
                flags += [t.id for t in s_.targets if isinstance(t, ast.Name)
                          and not t.id.endswith("__done")]
        for n in ast.walk(f.node):
            if isinstance(n, ast.If) and isinstance(n.test, ast.Name) and n.test.id in flags:
                if _requests_failed(prog, f, n.body) and terminates(n.body):
                    fails = True
    if not fails:
        # sentinel idiom: the handler leaves None as the result, the result is appended to a
        # list of results whatever it is, and `any(r is None for r in results)` fails the
        # workflow afterwards
        fg_s = FuncGuards(prog, f)
        sent = [t.id for s in h.body if isinstance(s, ast.Assign) and isinstance(
            s.value, ast.Constant) and s.value.value is None for t in s.targets
                if isinstance(t, ast.Name)]
        try_stmt = getattr(h, "_parent", None)
        base = set(fg_s.atoms(try_stmt)) if try_stmt is not None else set()
        lists_ = set()
        for c in ast.walk(f.node):
            if isinstance(c, ast.Call) and callee_name(c) == "append" and isinstance(
                    c.func, ast.Attribute) and isinstance(c.func.value, ast.Name) and c.args \
                    and isinstance(c.args[0], ast.Name) and c.args[0].id in sent and \
                    set(fg_s.atoms(c)) <= base and try_stmt is not None and \
                    try_stmt._ord < c._ord:
                lists_.add(c.func.value.id)
        for n in ast.walk(f.node):
            if isinstance(n, ast.If) and isinstance(n.test, ast.Call) and \
                    callee_name(n.test) == "any" and n.test.args and isinstance(
                        n.test.args[0], (ast.GeneratorExp, ast.ListComp)):
                g = n.test.args[0]
                gen = g.generators[0]
                if len(g.generators) == 1 and not gen.ifs and isinstance(gen.iter, ast.Name) \
                        and gen.iter.id in lists_ and isinstance(g.elt, ast.Compare) and \
                        len(g.elt.ops) == 1 and isinstance(g.elt.ops[0], ast.Is) and \
                        isinstance(g.elt.comparators[0], ast.Constant) and \
                        g.elt.comparators[0].value is None and \
                        unparse(g.elt.left) == unparse(gen.target):
                    if _requests_failed(prog, f, n.body) and terminates(n.body):
                        fails = True
    if not (logs and fails) and h.name:
        # collector idiom: the handler puts the exception into a list that is consumed later
        # by 'if <errors>: log_errors(...); request failed'
        for st in h.body:
            tgts = []
            if isinstance(st, ast.Assign) and any(
                    isinstance(x, ast.Name) and x.id == h.name for x in ast.walk(st.value)) \
                    and isinstance(st.value, (ast.List, ast.Tuple)):
                tgts = [t.id for t in st.targets if isinstance(t, ast.Name)]
            for tg in tgts:
                ok_c, _why = _errors_consumed(prog, f, tg, h)
                if ok_c:
                    logs = fails = True
    if logs and fails:
        res.holds(inst)
    else:
        res.violated(inst, Finding(
            "X3", f.file, f.qualname, "except %s" % (unparse(h.type) if h.type is not None else ""),
            "handler that contains an expression failure %s" % (
                "does not record it" if not logs else "does not fail the workflow"),
            line=h.lineno))


def _calls(stmts):
    for s in stmts:
        for n in ast.walk(s):
            if isinstance(n, ast.Call):
                yield n


CANCELISH = frozenset(["timeout", "abandoned", "canceled", "canceling"])


def _requests_failed(prog, f, stmts):
    """The block requests status failed, under no condition other than 'the workflow is not
    canceled/expired/abandoned' (relative to the block)."""
    fg = FuncGuards(prog, f)
    outer = None
    for c in _calls(stmts):
        if callee_name(c) == "request_workflow_status" and c.args:
            try:
                if prog.fold(c.args[0], f.module) != "failed":
                    continue
            except NotFoldable:
                continue
            if outer is None:
                outer = set(fg.atoms(stmts[0])) if stmts else set()
            extra = [a for a in fg.atoms(c) if a not in outer]
            done = CANCELISH | frozenset(["failed", "succeeded"])
            extra = [a for a in extra if not (
                a[0] == "notin" and isinstance(a[2], frozenset) and a[2] <= done
                and "status" in str(a[1]))]
            if not extra:
                return True
    return False


def _collectors(prog):
    """Functions that catch ExpressionEvaluationException, append it to a list and return the
    list (possibly inside a tuple)."""
    out = []
    for f in prog.all_functions():
        if not f.module.short.startswith("specs."):
            continue
        for n in ast.walk(f.node):
            if isinstance(n, ast.ExceptHandler) and n.type is not None and \
                    "ExpressionEvaluationException" in unparse(n.type) and n.name:
                apps = [c for c in _calls(n.body) if callee_name(c) == "append" and c.args
                        and isinstance(c.args[0], ast.Name) and c.args[0].id == n.name]
                if apps and isinstance(apps[0].func.value, ast.Name):
                    lst = apps[0].func.value.id
                    pos = _return_pos(f, lst)
                    if pos is not None:
                        f._errors_pos = pos
                        if f not in out:
                            out.append(f)
    return out


def _return_pos(f, name):
    for n in ast.walk(f.node):
        if isinstance(n, ast.Return) and n.value is not None:
            v = n.value
            if isinstance(v, ast.Tuple):
                for i, e in enumerate(v.elts):
                    if isinstance(e, ast.Name) and e.id == name:
                        return (i, len(v.elts))
            elif isinstance(v, ast.Name) and v.id == name:
                return (None, 1)
    return None


def _error_target(assign, collector):
    pos, n = collector._errors_pos
    t = assign.targets[0]
    if pos is None:
        return t.id if isinstance(t, ast.Name) else None
    if isinstance(t, ast.Tuple) and len(t.elts) == n and isinstance(t.elts[pos], ast.Name):
        return t.elts[pos].id
    return None


def _errors_consumed(prog, f, name, after):
    derived = {name}
    changed = True
    while changed:
        changed = False
        for n in ast.walk(f.node):
            if isinstance(n, ast.Assign) and len(n.targets) == 1 and isinstance(
                    n.targets[0], ast.Name):
                if {x.id for x in ast.walk(n.value) if isinstance(x, ast.Name)} & derived:
                    if n.targets[0].id not in derived:
                        derived.add(n.targets[0].id)
                        changed = True
    for n in ast.walk(f.node):
        if isinstance(n, ast.If) and isinstance(n.test, ast.Name) and n.test.id in derived:
            logs = any(callee_name(c) in ("log_errors", "log_error") for c in _calls(n.body))
            fails = _requests_failed(prog, f, n.body)
            in_loop = False
            p_ = getattr(n, "_parent", None)
            while p_ is not None and p_ is not f.node:
                if isinstance(p_, (ast.For, ast.While)):
                    in_loop = True
                p_ = getattr(p_, "_parent", None)
            if logs and fails and in_loop and not terminates(n.body):
                # the iteration goes on: then whatever stages the next task later in the loop
                # must be excluded for a failed transition by a guard on the error list
                loop_ = getattr(n, "_parent", None)
                while loop_ is not None and not isinstance(loop_, (ast.For, ast.While)):
                    loop_ = getattr(loop_, "_parent", None)
                fg_ = FuncGuards(prog, f)
                later = [c for c in _calls([loop_]) if callee_name(c) == "add_staged_task"
                         and textually_before(n, c)]
                unguarded = [c for c in later if not any(
                    a[0] == "falsy" and a[1] in derived for a in fg_.atoms(c))]
                if unguarded or not later:
                    return False, "'if %s:' does not leave the iteration (continue): the " \
                                  "failed transition is still processed" % n.test.id
            if logs and fails:
                return True, "consumed by 'if %s:'" % n.test.id
            return False, ("'if %s:' does not log" % n.test.id) if not logs else (
                "'if %s:' does not request failed" % n.test.id)
    # guard-clause form:  if not errors: return  ...  log_errors(errors); request failed
    fg = FuncGuards(prog, f)

    def under_errors(node):
        return any(a[0] == "truthy" and a[1] in derived for a in fg.atoms(node))
    logs = [c for c in _calls(f.node.body) if callee_name(c) in ("log_errors", "log_error")
            and under_errors(c) and textually_before(after, c)]
    if not logs:
        return False, "no 'if <errors>:' block and no logging under a guard on the error list"
    base_atoms = set(fg.atoms(logs[0]))
    for c in _calls(f.node.body):
        if callee_name(c) == "request_workflow_status" and c.args and under_errors(c) and \
                textually_before(after, c):
            try:
                if prog.fold(c.args[0], f.module) != "failed":
                    continue
            except NotFoldable:
                continue
            extra = [a for a in fg.atoms(c) if a not in base_atoms]
            done = CANCELISH | frozenset(["failed", "succeeded"])
            extra = [a for a in extra if not (
                a[0] == "notin" and isinstance(a[2], frozenset) and a[2] <= done
                and "status" in str(a[1]))]
            if not extra:
                return True, "consumed under the guard on %s" % sorted(derived)[0]
    return False, "errors are logged but the workflow is not failed under the same condition"


# ====================================================================== X1
RISKY_ATTRS = None


def rule_X1(ctx):
    res = RuleResult("X1", "evaluator contract: inside Evaluator.evaluate every call into the "
                           "template engine is wrapped so that any failure surfaces as the "
                           "language's EvaluationException; the dispatcher adds no raw failure")
    prog = ctx.prog
    base = prog.cls("expressions.base.Evaluator")
    evals = [c for c in prog.subclasses(base) if c is not base and "evaluate" in c.methods]
    if len(evals) < 2:
        raise AnalysisError("fewer than two evaluators found")
    for ci in evals:
        engine_attrs = set()
        for name, v in ci.attrs.items():
            if isinstance(v, ast.Call) and _foreign_root(prog, ci.module, v.func):
                engine_attrs.add(name)
        todo = [ci.methods["evaluate"]]
        done = set()
        call_sites = {}   # helper qualname -> [(caller FuncInfo, call node)]
        while todo:
            f = todo.pop()
            if f.qualname in done:
                continue
            done.add(f.qualname)
            fg = FuncGuards(prog, f)
            engine_locals = _engine_locals(f, engine_attrs)
            params = set(f.params[1:])
            tainted = _tainted(f, params)
            for n in ast.walk(f.node):
                if not isinstance(n, ast.Call):
                    continue
                # helper of the same class
                if isinstance(n.func, ast.Attribute) and isinstance(n.func.value, ast.Name) and \
                        n.func.value.id == f.params[0]:
                    m = prog.lookup_method(ci, n.func.attr)
                    if m is not None and m.cls is ci:
                        todo.append(m)
                        call_sites.setdefault(m.qualname, []).append((f, n))
                    if m is not None:
                        continue
                if not _is_engine_call(n, f.params[0], engine_attrs, engine_locals):
                    continue
                par = getattr(n, "_parent", None)
                if isinstance(par, ast.Attribute) and isinstance(getattr(par, "_parent", None), ast.Call) \
                        and par._parent.func is par:
                    continue  # inner link of a call chain: the outermost call is judged
                args = list(n.args) + [k.value for k in n.keywords]
                if not any(_mentions(a_, tainted) for a_ in args) and not _mentions(n.func, tainted):
                    continue
                inst = (f.qualname, norm_src(n))
                ok, why = _wrapped(prog, f, fg, n)
                if not ok and "outside any try" in why and call_sites.get(f.qualname):
                    # a helper that is only ever called from inside the wrapping try
                    sites = call_sites[f.qualname]
                    if all(_wrapped(prog, cf, FuncGuards(prog, cf), cn)[0] for cf, cn in sites):
                        ok, why = True, ""
                if ok:
                    res.holds(inst)
                else:
                    res.violated(inst, Finding(
                        "X1", f.file, f.qualname, norm_src(n),
                        "call into the template engine %s: a failure surfaces as a raw library "
                        "exception, which the collectors that catch ExpressionEvaluationException "
                        "do not contain" % why, line=n.lineno))
    # dispatcher: computed dict keys hash an evaluation result
    disp = prog.function(EVAL_FN)
    fg = FuncGuards(prog, disp)
    for n in ast.walk(disp.node):
        keynodes = []
        if isinstance(n, ast.DictComp):
            keynodes = [n.key]
        elif isinstance(n, ast.Dict):
            keynodes = [k for k in n.keys if k is not None]
        # d[key] = value with a key that is (derived from) an evaluation result
        if isinstance(n, ast.Assign):
            for t in n.targets:
                if isinstance(t, ast.Subscript) and not isinstance(t.slice, ast.Constant):
                    names = {x.id for x in ast.walk(t.slice) if isinstance(x, ast.Name)}
                    from_eval = any(callee_name(c) == "evaluate" for c in ast.walk(t.slice)
                                    if isinstance(c, ast.Call))
                    for nm in names:
                        for d in ast.walk(disp.node):
                            if isinstance(d, ast.Assign) and any(
                                    isinstance(tt, ast.Name) and tt.id == nm for tt in d.targets) \
                                    and any(callee_name(c) == "evaluate" for c in ast.walk(d.value)
                                            if isinstance(c, ast.Call)):
                                from_eval = True
                    if from_eval:
                        keynodes.append(t.slice)
        for k in keynodes:
            if isinstance(k, ast.Constant):
                continue
            from sa.core import untag
            inst = (disp.qualname, "computed dict key %s" % untag(unparse(k)))
            if any(True for t in fg.try_context(n) for h in t.handlers
                   if handler_catches(prog, h, disp.module, {"TypeError", "Exception"})):
                res.holds(inst)
            else:
                res.violated(inst, Finding(
                    "X1", disp.file, disp.qualname, "computed dict key %s" % untag(unparse(k)),
                    "a dict is built with evaluated keys outside any try: an unhashable "
                    "evaluation result raises a raw TypeError from the dispatcher",
                    line=n.lineno))
    return res


def _foreign_root(prog, module, expr):
    x = expr
    while isinstance(x, (ast.Attribute, ast.Call)):
        x = x.value if isinstance(x, ast.Attribute) else x.func
    if isinstance(x, ast.Name):
        imp = module.imports.get(x.id)
        if imp is not None and not imp[1].startswith("orquesta") and imp[1] not in ("re", "logging"):
            return True
    return False


def _engine_locals(f, engine_attrs):
    """Locals assigned from a call on an engine object (e.g. compiled = env.compile_expression())."""
    out = set()
    for _ in range(2):
        for n in ast.walk(f.node):
            if isinstance(n, ast.Assign) and isinstance(n.value, ast.Call) and _is_engine_call(
                    n.value, f.params[0], engine_attrs, out):
                for t in n.targets:
                    if isinstance(t, ast.Name):
                        out.add(t.id)
    return out


def _is_engine_call(call, clsname, engine_attrs, engine_locals):
    x = call.func
    while True:
        if isinstance(x, ast.Attribute):
            if isinstance(x.value, ast.Name) and x.value.id == clsname and x.attr in engine_attrs:
                return True
            x = x.value
        elif isinstance(x, ast.Call):
            x = x.func
        elif isinstance(x, ast.Name):
            # a local bound to an engine object counts only when it is called itself
            return x.id in engine_locals and x is call.func
        else:
            return False


def _tainted(f, params):
    t = set(params)
    for _ in range(4):
        for n in ast.walk(f.node):
            if isinstance(n, ast.Assign):
                if _mentions(n.value, t):
                    for tg in n.targets:
                        for x in ast.walk(tg):
                            if isinstance(x, ast.Name):
                                t.add(x.id)
            elif isinstance(n, ast.For):
                if _mentions(n.iter, t):
                    for x in ast.walk(n.target):
                        if isinstance(x, ast.Name):
                            t.add(x.id)
    return t


def _mentions(node, names):
    return any(isinstance(x, ast.Name) and x.id in names for x in ast.walk(node))


def _wrapped(prog, f, fg, call):
    tries = fg.try_context(call)
    if not tries:
        return False, "is outside any try"
    t = tries[0]
    catch_all = False
    for h in t.handlers:
        for ty in handler_types(h):
            if ty is None or unparse(ty).split(".")[-1] in ("Exception", "BaseException"):
                catch_all = True
        if not h.body or not isinstance(h.body[-1], ast.Raise) or h.body[-1].exc is None:
            return False, "has a handler that does not raise the evaluation exception"
        exc_ = h.body[-1].exc
        cls = exc_.func if isinstance(exc_, ast.Call) else exc_
        names = exc_bases(prog, cls, f.module)
        if "ExpressionEvaluationException" not in names:
            return False, "is converted to %s, not an ExpressionEvaluationException" % unparse(cls)
    if not catch_all:
        return False, "is in a try without a catch-all handler"
    return True, ""


# ====================================================================== X4
SAFE_OUTSIDE_TRY = ("append", "len", "isinstance", "bool", "log_error", "log_errors",
                    "request_workflow_status", "get", "sorted", "list")


def rule_X4(ctx):
    """Everything get_next_tasks does to render an offer happens inside the catch-all try of
    the rendering loop.  Outside it the loop only keeps books (tests on the rendered task,
    appending the offer, raising the failure flag, continue).  Work on the rendered task
    outside the try - window arithmetic on a non-integer concurrency, item bookkeeping on a
    missing entry - raises a raw exception out of get_next_tasks instead of being logged and
    failing the workflow."""
    res = RuleResult("X4", "in the rendering loop of get_next_tasks no work on the rendered task "
                           "happens outside the catch-all try")
    prog = ctx.prog
    f = prog.function("conducting.WorkflowConductor.get_next_tasks")
    loops = [n for n in ast.walk(f.node) if isinstance(n, ast.For)
             and any(callee_name(c) == "get_task" for c in _calls([n]))]
    # the outermost such loop
    loops = [lp for lp in loops if not any(lp is not o and any(lp is x for x in ast.walk(o))
                                           for o in loops)]
    if not loops:
        raise AnalysisError("get_next_tasks: rendering loop not found")
    for lp in loops:
        tries = [t for t in ast.walk(lp) if isinstance(t, ast.Try) and any(
            h.type is None or (isinstance(h.type, ast.Name) and h.type.id in (
                "Exception", "BaseException")) for h in t.handlers)]
        inst0 = (f.qualname, "catch-all try in the rendering loop")
        if not tries:
            res.violated(inst0, Finding(
                "X4", f.file, f.qualname, "rendering loop without a catch-all try",
                "the rendering loop of get_next_tasks has no try with a catch-all handler",
                line=lp.lineno))
            continue
        res.holds(inst0)
        inside = set()
        for t in tries:
            for x in ast.walk(t):
                inside.add(id(x))
        for c in _calls(lp.body):
            if id(c) in inside:
                continue
            cn = callee_name(c) or "?"
            inst = (f.qualname, norm_src(c))
            if cn in SAFE_OUTSIDE_TRY:
                res.holds(inst, "bookkeeping")
            else:
                res.violated(inst, Finding(
                    "X4", f.file, f.qualname, "outside the try: " + norm_src(c),
                    "%s is called in the rendering loop outside the catch-all try: a failure "
                    "there (e.g. a rendered concurrency that is not an integer) leaves "
                    "get_next_tasks as a raw exception instead of being logged and failing the "
                    "workflow" % unparse(c.func), line=c.lineno))
        # subscript arithmetic outside the try on the rendered task
        for n in ast.walk(ast.Module(body=lp.body, type_ignores=[])):
            if isinstance(n, ast.BinOp) and id(n) not in inside and isinstance(
                    n.op, (ast.Sub, ast.Add, ast.Mult)) and any(
                    isinstance(x, ast.Subscript) for x in ast.walk(n)):
                res.violated((f.qualname, norm_src(n)), Finding(
                    "X4", f.file, f.qualname, "arithmetic outside the try: " + norm_src(n),
                    "arithmetic on the rendered task outside the catch-all try", line=n.lineno))
    return res

"""Regenerates /verif/MANIFEST.json from sa.props (run after changing the registry)."""
import json
import os

from sa import props

VERIF = os.path.dirname(os.path.dirname(os.path.abspath(__file__)))
ALL = ["C%02d" % i for i in range(1, 21)]


def main():
    checks = []
    for pid in ALL:
        spec = props.PROPERTIES.get(pid)
        if spec is None:
            continue
        checks.append({
            "property_id": pid,
            "quick_cmd": "/venv/bin/python -m sa.check %s --tier quick" % pid,
            "thorough_cmd": "/venv/bin/python -m sa.check %s --tier thorough" % pid,
            "evidence_file": "/verif/evidence/%s.json" % pid,
            "replay_cmd_template": "/venv/bin/python -m sa.check %s --replay {path}" % pid,
            "engine": "sa",
            "level_claimed": {
                "category": "other",
                "text": "Static analysis of /repo's source (no execution). " + spec["explanation"],
                "design_ref": "DESIGN.md section 5, %s" % pid,
            },
            "level_note": "Trusted base: CPython ast; the sa engines (exercised on every run by "
                          "positive controls, in the thorough tier by a breaking edit at every "
                          "counted instance); assumptions: " + "; ".join(spec.get("assumptions", [])),
            "technique": props.TECHNIQUE.get(pid, "static analysis (ast)"),
        })
    na = []
    for pid in ALL:
        if pid in props.PROPERTIES:
            continue
        reason = props.NOT_APPLICABLE.get(pid) or props.PENDING.get(pid) or \
            "not claimed: no static rule for this property has been built yet"
        na.append({"property_id": pid, "reason": reason})
    man = {
        "version": 1,
        "setup_cmd": "/venv/bin/python -m sa.selfcheck",
        "hooks": {
            "guard": "ORQUESTA_VERIF",
            "enable": "none needed: the checks read /repo's source and never run it; no hook or "
                      "instrumentation exists",
            "baseline_off_cmd": "cd /repo && /venv/bin/python -m pytest -ra -q -p no:cacheprovider "
                                "--timeout=900 --continue-on-collection-errors",
            "source_commits": [],
            "add_only": True,
        },
        "engines": [{
            "name": "sa",
            "path": "/verif/sa",
            "serves_properties": [c["property_id"] for c in checks],
            "kind_free_text": "repository-specific static analysis over the parsed source (stdlib "
                              "ast): constant folder, guard/ordering analysis, access-path abstract "
                              "interpretation (effects, ownership), exception-escape analysis, "
                              "typestate analysis of the transition tables, order-taint analysis",
        }],
        "checks": checks,
        "not_applicable": na,
        "notes": "All checks are static (family: static analysis). Exit 0 held / 1 VIOLATION / 2 "
                 "ANALYSIS-ERROR (undecided). Known findings: /verif/known_findings.json. Repairs "
                 "of genuine defects are 'fix:' commits in /repo, logged there as fixed.",
    }
    with open(os.path.join(VERIF, "MANIFEST.json"), "w") as fh:
        json.dump(man, fh, indent=1)
    print("wrote MANIFEST.json: %d checks, %d not applicable" % (len(checks), len(na)))


if __name__ == "__main__":
    main()

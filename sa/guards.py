"""E3 - guards and ordering over structured control flow.

The engine code is structured Python, so control dependence is computed syntactically: the
guard set of a node is the conjunction of the tests of the enclosing if/while/ifexp/boolop/
comprehension filters (with polarity) plus the negation of every earlier sibling statement
that leaves the block when its test holds (early return / raise / continue / break).
"""

import ast

from sa.core import NotFoldable, Opaque, unparse

NEG = {
    "truthy": "falsy", "falsy": "truthy", "in": "notin", "notin": "in", "==": "!=", "!=": "==",
    "<": ">=", ">=": "<", ">": "<=", "<=": ">", "is": "isnot", "isnot": "is",
    "isinstance": "notisinstance", "notisinstance": "isinstance",
}
CMP = {
    ast.In: "in", ast.NotIn: "notin", ast.Eq: "==", ast.NotEq: "!=", ast.Lt: "<", ast.LtE: "<=",
    ast.Gt: ">", ast.GtE: ">=", ast.Is: "is", ast.IsNot: "isnot",
}
SWAP = {"==": "==", "!=": "!=", "<": ">", ">": "<", "<=": ">=", ">=": "<="}


def _hashable(v):
    if isinstance(v, (list, tuple, set, frozenset)):
        try:
            return frozenset(_hashable(x) for x in v)
        except TypeError:
            return repr(v)
    if isinstance(v, dict):
        return frozenset(_hashable(k) for k in v.keys())
    if isinstance(v, Opaque):
        return repr(v)
    return v


class Normalizer(object):
    """Turns a test expression into a conjunction (list) of atoms.

    atom  := (op, lhs_text, rhs)          rhs is a folded value when foldable, else ('src', text)
    or    := ('or', (conjunct, ...))      each alternative is itself a tuple of atoms
    """

    def __init__(self, prog, module, subst=None, fnode=None):
        self.prog = prog
        self.module = module
        self.subst = subst or {}
        self.fnode = fnode
        self._lf_cache = {}

    def text(self, node):
        if self.subst:
            node = _Subst(self.subst).visit(_copy(node))
        return unparse(node)

    def fold(self, node):
        try:
            v = self.prog.fold(node, self.module)
        except NotFoldable:
            # a straight-line, single-assignment local holding a constant (for example a
            # parameter temporary of the inlining pass bound to a constant argument)
            v = None
            if self.fnode is not None:
                from sa.core import single_defs_cached, subst_locals
                defs = single_defs_cached(self.fnode)
                if defs and any(isinstance(x, ast.Name) and x.id in defs for x in ast.walk(node)):
                    ck = id(node)
                    if ck in self._lf_cache and self._lf_cache[ck][0] is node:
                        v = self._lf_cache[ck][1]
                    else:
                        try:
                            v = self.prog.fold(subst_locals(self.fnode, node), self.module)
                        except NotFoldable:
                            v = None
                        self._lf_cache[ck] = (node, v)
            if v is None:
                return ("src", self.text(node))
        if isinstance(v, Opaque):
            return ("src", self.text(node))
        return _hashable(v)

    def conj(self, test, pol=True):
        """Conjunction of atoms equivalent to (test if pol else not test)."""
        if isinstance(test, ast.UnaryOp) and isinstance(test.op, ast.Not):
            return self.conj(test.operand, not pol)
        if isinstance(test, ast.BoolOp):
            is_and = isinstance(test.op, ast.And)
            if is_and == pol:
                out = []
                for v in test.values:
                    out.extend(self.conj(v, pol))
                return out
            alts = tuple(tuple(self.conj(v, pol)) for v in test.values)
            return [("or", alts)]
        if isinstance(test, ast.Compare):
            if len(test.ops) == 1:
                return [self._cmp(test.left, test.ops[0], test.comparators[0], pol)]
            parts = []
            left = test.left
            for op, right in zip(test.ops, test.comparators):
                parts.append((left, op, right))
                left = right
            if pol:
                return [self._cmp(a, op, b, True) for a, op, b in parts]
            return [("or", tuple((self._cmp(a, op, b, False),) for a, op, b in parts))]
        if isinstance(test, ast.Call) and isinstance(test.func, ast.Name):
            if test.func.id == "isinstance" and len(test.args) == 2:
                op = "isinstance" if pol else "notisinstance"
                return [(op, self.text(test.args[0]), ("src", self.text(test.args[1])))]
            if test.func.id == "bool" and len(test.args) == 1:
                return self.conj(test.args[0], pol)
        if isinstance(test, ast.Constant):
            return [("const", bool(test.value) == pol, None)]
        return [("truthy" if pol else "falsy", self.text(test), None)]

    def _cmp(self, left, op, right, pol):
        o = CMP.get(type(op))
        if o is None:
            return ("truthy" if pol else "falsy", self.text(ast.Compare(left, [op], [right])), None)
        lf, rf = self.fold(left), self.fold(right)
        # len(x) > 0  ==  truthy(x)
        if (isinstance(left, ast.Call) and isinstance(left.func, ast.Name) and left.func.id == "len"
                and len(left.args) == 1 and rf == 0 and o in (">", "!=", "<=", "==")):
            truthy = o in (">", "!=")
            return ("truthy" if truthy == pol else "falsy", self.text(left.args[0]), None)
        lhs_foldable = not (isinstance(lf, tuple) and len(lf) == 2 and lf[0] == "src")
        rhs_foldable = not (isinstance(rf, tuple) and len(rf) == 2 and rf[0] == "src")
        if lhs_foldable and not rhs_foldable and o in SWAP:
            left, right, lf, rf, o = right, left, rf, lf, SWAP[o]
        if not pol:
            o = NEG[o]
        return (o, self.text(left), rf)


def _copy(node):
    return ast.parse(unparse(node), mode="eval").body


class _Subst(ast.NodeTransformer):
    def __init__(self, mapping):
        self.mapping = mapping

    def visit_Name(self, node):
        if isinstance(node.ctx, ast.Load) and node.id in self.mapping:
            return _copy(self.mapping[node.id])
        return node


def terminates(stmts):
    """True when every path through the statement list leaves the enclosing block."""
    if not stmts:
        return False
    last = stmts[-1]
    if isinstance(last, (ast.Return, ast.Raise, ast.Continue, ast.Break)):
        return True
    if isinstance(last, ast.If):
        return terminates(last.body) and terminates(last.orelse)
    if isinstance(last, ast.Try):
        body_ok = terminates(last.body) or (last.orelse and terminates(last.orelse))
        return bool(body_ok and all(terminates(h.body) for h in last.handlers)) or (
            bool(last.finalbody) and terminates(last.finalbody)
        )
    if isinstance(last, ast.With):
        return terminates(last.body)
    return False


STMT_LIST_FIELDS = ("body", "orelse", "finalbody")


def stmt_lists_of(node):
    for fld in STMT_LIST_FIELDS:
        lst = getattr(node, fld, None)
        if isinstance(lst, list) and lst and isinstance(lst[0], ast.stmt):
            yield fld, lst
    if isinstance(node, ast.Try):
        for h in node.handlers:
            yield "handler", h.body


def containing_list(stmt):
    """(owner node, field name, list, index) of the statement list that holds stmt."""
    parent = getattr(stmt, "_parent", None)
    if parent is None:
        return None
    if isinstance(parent, ast.ExceptHandler):
        return parent, "body", parent.body, parent.body.index(stmt)
    for fld, lst in stmt_lists_of(parent):
        if fld == "handler":
            continue
        for i, s in enumerate(lst):
            if s is stmt:
                return parent, fld, lst, i
    return None


class Guard(object):
    __slots__ = ("atoms", "kind", "node", "origin")

    def __init__(self, atoms, kind, node, origin):
        self.atoms = atoms  # list of atoms (conjunction)
        self.kind = kind  # 'if' | 'while' | 'ifexp' | 'boolop' | 'comp' | 'early-exit'
        self.node = node  # the test expression
        self.origin = origin  # the statement / expression that carries the test


class FuncGuards(object):
    """Guard queries for one function."""

    def __init__(self, prog, finfo, subst_locals=False):
        self.prog = prog
        self.f = finfo
        self.module = finfo.module
        subst = {}
        if subst_locals:
            subst = single_assignments(finfo.node)
        self.norm = Normalizer(prog, finfo.module, subst, fnode=finfo.node)

    # -------------------------------------------------------------- structural context
    def context(self, node, stop=None):
        """List of Guard objects and markers, innermost last."""
        guards = []
        markers = []
        child = node
        parent = getattr(node, "_parent", None)
        fnode = self.f.node
        while parent is not None and child is not fnode and child is not stop:
            self._step(parent, child, guards, markers)
            if isinstance(child, ast.stmt):
                self._early_exits(child, guards)
            child, parent = parent, getattr(parent, "_parent", None)
        guards.reverse()
        markers.reverse()
        return guards, markers

    def _add(self, guards, test, pol, kind, origin):
        guards.append(Guard(self.norm.conj(test, pol), kind, test, origin))

    def _step(self, parent, child, guards, markers):
        if isinstance(parent, ast.If):
            if child in parent.body:
                self._add(guards, parent.test, True, "if", parent)
            elif child in parent.orelse:
                self._add(guards, parent.test, False, "if", parent)
        elif isinstance(parent, ast.While):
            if child in parent.body:
                self._add(guards, parent.test, True, "while", parent)
                markers.append(("loop", parent))
        elif isinstance(parent, (ast.For, ast.AsyncFor)):
            if child in parent.body:
                markers.append(("loop", parent))
        elif isinstance(parent, ast.IfExp):
            if child is parent.body:
                self._add(guards, parent.test, True, "ifexp", parent)
            elif child is parent.orelse:
                self._add(guards, parent.test, False, "ifexp", parent)
        elif isinstance(parent, ast.BoolOp):
            idx = parent.values.index(child) if child in parent.values else -1
            pol = isinstance(parent.op, ast.And)
            for v in parent.values[:max(idx, 0)]:
                self._add(guards, v, pol, "boolop", parent)
        elif isinstance(parent, (ast.ListComp, ast.SetComp, ast.GeneratorExp, ast.DictComp)):
            is_elt = child is getattr(parent, "elt", None) or child in (
                getattr(parent, "key", None), getattr(parent, "value", None))
            if is_elt:
                for gen in parent.generators:
                    markers.append(("comp", gen))
                    for cond in gen.ifs:
                        self._add(guards, cond, True, "comp", parent)
        elif isinstance(parent, ast.Try):
            if child in parent.body:
                markers.append(("try", parent))
        elif isinstance(parent, ast.ExceptHandler):
            markers.append(("except", parent))
        elif isinstance(parent, ast.With):
            markers.append(("with", parent))

    def _early_exits(self, stmt, guards):
        loc = containing_list(stmt)
        if loc is None:
            return
        _, _, lst, idx = loc
        for prev in lst[:idx]:
            if isinstance(prev, ast.If):
                if terminates(prev.body) and not terminates(prev.orelse):
                    self._add(guards, prev.test, False, "early-exit", prev)
                elif prev.orelse and terminates(prev.orelse) and not terminates(prev.body):
                    self._add(guards, prev.test, True, "early-exit", prev)

    # -------------------------------------------------------------- queries
    def atoms(self, node, stop=None):
        gs, _ = self.context(node, stop)
        out = []
        for g in gs:
            out.extend(g.atoms)
        return out

    def markers(self, node):
        return self.context(node)[1]

    def in_loop(self, node):
        return any(m[0] == "loop" for m in self.markers(node))

    def try_context(self, node):
        """Enclosing try statements (innermost first) whose *body* contains node."""
        out = []
        child, parent = node, getattr(node, "_parent", None)
        while parent is not None and child is not self.f.node:
            if isinstance(parent, ast.Try) and child in parent.body:
                out.append(parent)
            child, parent = parent, getattr(parent, "_parent", None)
        return out

    def enclosing_handlers(self, node):
        out = []
        parent = getattr(node, "_parent", None)
        while parent is not None and parent is not self.f.node:
            if isinstance(parent, ast.ExceptHandler):
                out.append(parent)
            parent = getattr(parent, "_parent", None)
        return out


def fmt_atom(a):
    if a[0] == "or":
        return "(" + " or ".join(" and ".join(fmt_atom(x) for x in alt) for alt in a[1]) + ")"
    op, lhs, rhs = a
    if op in ("truthy", "falsy"):
        return ("" if op == "truthy" else "not ") + lhs
    if op == "const":
        return str(lhs)
    if isinstance(rhs, tuple) and len(rhs) == 2 and rhs[0] == "src":
        r = rhs[1]
    elif isinstance(rhs, frozenset):
        r = "{" + ", ".join(sorted(map(str, rhs))) + "}"
    else:
        r = repr(rhs)
    return "%s %s %s" % (lhs, op, r)


def fmt_atoms(atoms):
    return [fmt_atom(a) for a in atoms]


def single_assignments(fnode):
    """Local names assigned exactly once in the function by a plain 'name = expr' whose value
    is a pure read (Name / Attribute / constant chain); used to normalise tests."""
    counts = {}
    values = {}
    for node in ast.walk(fnode):
        if isinstance(node, ast.Assign) and len(node.targets) == 1 and isinstance(
                node.targets[0], ast.Name):
            n = node.targets[0].id
            counts[n] = counts.get(n, 0) + 1
            values[n] = node.value
        elif isinstance(node, (ast.AugAssign, ast.AnnAssign)) and isinstance(node.target, ast.Name):
            counts[node.target.id] = counts.get(node.target.id, 0) + 2
        elif isinstance(node, (ast.For, ast.comprehension)):
            for t in ast.walk(node.target):
                if isinstance(t, ast.Name):
                    counts[t.id] = counts.get(t.id, 0) + 2
        elif isinstance(node, ast.Assign):
            for t in node.targets:
                for x in ast.walk(t):
                    if isinstance(x, ast.Name):
                        counts[x.id] = counts.get(x.id, 0) + 2
    out = {}
    for n, c in counts.items():
        if c == 1 and _pure_read(values[n]):
            out[n] = values[n]
    return out


def _pure_read(node):
    if isinstance(node, (ast.Name, ast.Constant)):
        return True
    if isinstance(node, ast.Attribute):
        return _pure_read(node.value)
    return False


# ---------------------------------------------------------------------- ordering helpers
def stmt_path(node, fnode):
    """Chain of (statement list, index) from the function body down to the node."""
    chain = []
    cur = node
    while cur is not None and cur is not fnode:
        if isinstance(cur, ast.stmt):
            loc = containing_list(cur)
            if loc is not None:
                chain.append((loc[2], loc[3], cur))
        cur = getattr(cur, "_parent", None)
    chain.reverse()
    return chain


def common_list(a, b, fnode):
    """Deepest statement list containing both nodes: (list, index_a, index_b, top_a, top_b)."""
    pa, pb = stmt_path(a, fnode), stmt_path(b, fnode)
    found = None
    for (la, ia, sa), (lb, ib, sb) in zip(pa, pb):
        if la is lb:
            found = (la, ia, ib, sa, sb)
            if ia != ib:
                break
        else:
            break
    return found


def textually_before(a, b):
    """a precedes b in document order of the analysed (possibly inlined) function."""
    oa, ob = getattr(a, "_ord", None), getattr(b, "_ord", None)
    if oa is not None and ob is not None:
        return oa < ob
    return (a.lineno, a.col_offset) < (b.lineno, b.col_offset)


def names_assigned(nodes):
    out = set()
    for n in nodes:
        for x in ast.walk(n):
            if isinstance(x, ast.Name) and isinstance(x.ctx, (ast.Store, ast.Del)):
                out.add(x.id)
    return out


def names_read(node):
    return {x.id for x in ast.walk(node) if isinstance(x, ast.Name)}


def calls_in(node):
    for x in ast.walk(node):
        if isinstance(x, ast.Call):
            yield x


def callee_name(call):
    """Last component of the callee ('append', 'merge_dicts', ...)."""
    f = call.func
    if isinstance(f, ast.Attribute):
        return f.attr
    if isinstance(f, ast.Name):
        return f.id
    return None


def dotted(node):
    if isinstance(node, ast.Name):
        return node.id
    if isinstance(node, ast.Attribute):
        b = dotted(node.value)
        return None if b is None else b + "." + node.attr
    return None

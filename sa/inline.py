"""AST inlining of private helpers (normalisation before analysis).

"Extract method" is the most common behaviour-preserving refactoring, and rules that reason
about guard sets, ordering and provenance inside one function would otherwise depend on where
a maintainer happens to cut a function.  Before analysis every call of a *private* helper
(`self._h(..)`, `cls._h(..)`, `_h(..)` of the same module, not dunder, not recursive, no
*args/**kwargs, no nested definitions, returns not inside loops/try/with) that stands in a
statement position where evaluation order is preserved (expression statement, assignment,
return, or an operand of a binary operation whose earlier operands are plain names /
constants) is replaced by the helper's body: parameters become assignments, locals are renamed
apart, `return` is lowered to an assignment of a result variable with the remaining statements
nested under the complementary branch.  Calls under `and`/`or`/conditional expressions,
comprehensions or lambdas are left alone (inlining them would change short-circuit behaviour).

The helper definitions stay in the program, so rules anchored on them still see them.  Inlined
statements keep the line numbers of the helper's source, so diagnostics point at real lines.
"""

import ast
import copy

MAX_PASSES = 3


class NotInlinable(Exception):
    pass


def _has_return(stmts):
    for s in stmts:
        for n in ast.walk(s):
            if isinstance(n, ast.Return):
                return True
    return False


def lower_returns(stmts, res):
    """Rewrite a statement list so that it contains no `return`: each return assigns `res` and
    the statements that followed it are nested under the complementary branch.  Raises
    NotInlinable when a return sits inside a loop / try / with."""
    out = []
    for i, s in enumerate(stmts):
        rest = stmts[i + 1:]
        if isinstance(s, ast.Return):
            val = s.value if s.value is not None else ast.Constant(value=None)
            out.append(ast.copy_location(ast.Assign(
                targets=[ast.Name(id=res, ctx=ast.Store())], value=val), s))
            return out  # anything after a return is dead
        if isinstance(s, ast.If) and (_has_return(s.body) or _has_return(s.orelse)):
            body_term = _always_returns(s.body)
            else_term = _always_returns(s.orelse)
            if body_term and else_term:
                new = ast.copy_location(ast.If(test=s.test, body=lower_returns(s.body, res),
                                               orelse=lower_returns(s.orelse, res)), s)
                out.append(new)
                return out
            if body_term:
                new = ast.copy_location(ast.If(
                    test=s.test, body=lower_returns(s.body, res),
                    orelse=lower_returns(list(s.orelse) + list(rest), res)), s)
                out.append(new)
                return out
            if else_term:
                new = ast.copy_location(ast.If(
                    test=s.test, body=lower_returns(list(s.body) + list(rest), res),
                    orelse=lower_returns(s.orelse, res)), s)
                out.append(new)
                return out
            raise NotInlinable("conditional return that does not end its branch")
        if isinstance(s, ast.Try) and _has_return([s]):
            # returns inside try / except: each one assigns the result and raises a "done"
            # flag; what followed the try statement runs only while the flag is down
            if _has_return(s.finalbody) or any(_in_loop_return(x) for x in [s]):
                raise NotInlinable("return inside finally / a loop within try")
            flag = res + "__done"
            out.append(ast.copy_location(ast.Assign(
                targets=[ast.Name(id=flag, ctx=ast.Store())], value=ast.Constant(value=False)), s))

            def low(block):
                lowered = lower_returns(list(block), res)
                return _mark_done(lowered, res, flag)
            new = ast.copy_location(ast.Try(
                body=low(s.body),
                handlers=[ast.copy_location(ast.ExceptHandler(
                    type=h.type, name=h.name, body=low(h.body)), h) for h in s.handlers],
                orelse=low(s.orelse) if s.orelse else [], finalbody=s.finalbody), s)
            out.append(new)
            if rest:
                out.append(ast.copy_location(ast.If(
                    test=ast.UnaryOp(op=ast.Not(), operand=ast.Name(id=flag, ctx=ast.Load())),
                    body=lower_returns(list(rest), res), orelse=[]), s))
            return out
        if isinstance(s, (ast.For, ast.While, ast.Try, ast.With, ast.AsyncFor, ast.AsyncWith)) \
                and _has_return([s]):
            raise NotInlinable("return inside a loop / with")
        out.append(s)
    return out


def _in_loop_return(try_node):
    for n in ast.walk(try_node):
        if isinstance(n, (ast.For, ast.While, ast.AsyncFor)) and _has_return([n]):
            return True
    return False


def _mark_done(stmts, res, flag):
    """After every assignment of the result variable (a lowered return) raise the flag."""
    out = []
    for st in stmts:
        for fld in ("body", "orelse"):
            lst = getattr(st, fld, None)
            if isinstance(lst, list) and lst and isinstance(lst[0], ast.stmt) and not isinstance(
                    st, (ast.For, ast.While)):
                setattr(st, fld, _mark_done(lst, res, flag))
        out.append(st)
        if isinstance(st, ast.Assign) and any(isinstance(t, ast.Name) and t.id == res
                                              for t in st.targets):
            out.append(ast.copy_location(ast.Assign(
                targets=[ast.Name(id=flag, ctx=ast.Store())], value=ast.Constant(value=True)), st))
    return out


def _always_returns(stmts):
    if not stmts:
        return False
    last = stmts[-1]
    if isinstance(last, (ast.Return, ast.Raise)):
        return True
    if isinstance(last, ast.If):
        return _always_returns(last.body) and _always_returns(last.orelse)
    return False


class _Rename(ast.NodeTransformer):
    def __init__(self, mapping):
        self.mapping = mapping

    def visit_Name(self, node):
        if node.id in self.mapping:
            return ast.copy_location(ast.Name(id=self.mapping[node.id], ctx=node.ctx), node)
        return node

    def visit_ExceptHandler(self, node):
        self.generic_visit(node)
        if node.name in self.mapping:
            node.name = self.mapping[node.name]
        return node

    def visit_arg(self, node):
        if node.arg in self.mapping:
            node.arg = self.mapping[node.arg]
        return node


def _locals_of(fnode):
    names = set()
    a = fnode.args
    for x in a.posonlyargs + a.args + a.kwonlyargs:
        names.add(x.arg)
    for n in ast.walk(fnode):
        if isinstance(n, ast.Name) and isinstance(n.ctx, (ast.Store, ast.Del)):
            names.add(n.id)
        elif isinstance(n, ast.ExceptHandler) and n.name:
            names.add(n.name)
        elif isinstance(n, (ast.Lambda,)):
            for x in n.args.args:
                names.add(x.arg)
    return names


def _simple(e):
    return isinstance(e, (ast.Name, ast.Constant)) or (
        isinstance(e, ast.Attribute) and _simple(e.value))


class Inliner(object):
    def __init__(self, tree):
        self.tree = tree
        self.counter = 0
        self.module_funcs = {}
        self.class_methods = {}
        for s in tree.body:
            if isinstance(s, ast.FunctionDef):
                self.module_funcs[s.name] = s
            elif isinstance(s, ast.ClassDef):
                for m in s.body:
                    if isinstance(m, ast.FunctionDef):
                        self.class_methods.setdefault(s.name, {})[m.name] = m
        self.n_inlined = 0
        self.bases = {}
        for s in tree.body:
            if isinstance(s, ast.ClassDef):
                self.bases[s.name] = [b.id for b in s.bases if isinstance(b, ast.Name)]

    def _method(self, cls_name, name, depth=0):
        """Private method `name` of the class or of a base class defined in the same module
        (a subclass overriding it elsewhere is not visible: only names that no class of the
        module redefines are resolved through bases)."""
        m = self.class_methods.get(cls_name, {}).get(name)
        if m is not None or depth > 4:
            return m
        for b in self.bases.get(cls_name, ()):
            m = self._method(b, name, depth + 1)
            if m is not None:
                return m
        return None

    # -------------------------------------------------------------- which helper?
    def resolve(self, call, cls_name, first_param):
        f = call.func
        if isinstance(f, ast.Name) and f.id in self.module_funcs and self._private(f.id):
            return self.module_funcs[f.id], None
        if isinstance(f, ast.Attribute) and self._private(f.attr) and isinstance(f.value, ast.Name):
            if f.value.id in ("self", "cls") or f.value.id == first_param:
                m = self._method(cls_name, f.attr) if cls_name else None
                if m is not None and not self._overridden(cls_name, f.attr, m):
                    return m, f.value
            elif f.value.id in self.class_methods and f.value.id == cls_name:
                m = self.class_methods[cls_name].get(f.attr)
                if m is not None:
                    return m, f.value
        return None, None

    def _overridden(self, cls_name, name, m):
        """Some other class of the module defines the same private name: `self._h` could
        dispatch to it, so the call is left alone."""
        return any(ms.get(name) is not None and ms.get(name) is not m
                   for c, ms in self.class_methods.items())

    @staticmethod
    def _private(name):
        return name.startswith("_") and not name.startswith("__")

    no_inline = frozenset()

    def inlinable(self, h):
        a = h.args
        if h.name in self.no_inline:
            return False
        if a.vararg or a.kwarg:
            return False
        decos = [ast.unparse(d) for d in h.decorator_list]
        if any(d not in ("classmethod", "staticmethod") for d in decos):
            return False
        for n in ast.walk(h):
            if n is not h and isinstance(n, (ast.FunctionDef, ast.AsyncFunctionDef, ast.Yield,
                                               ast.YieldFrom, ast.Global, ast.Nonlocal)):
                return False
            if isinstance(n, ast.Call):
                fn = n.func
                nm = fn.attr if isinstance(fn, ast.Attribute) else getattr(fn, "id", None)
                if nm == h.name:
                    return False  # recursive
        return True

    def bind_args(self, h, recv, call):
        """{parameter: argument expression} for this call of helper h."""
        decos = [ast.unparse(d) for d in h.decorator_list]
        params = [x.arg for x in h.args.posonlyargs + h.args.args]
        kwonly = [x.arg for x in h.args.kwonlyargs]
        bind = {}
        pos = list(call.args)
        if any(isinstance(a_, ast.Starred) for a_ in pos) or any(k.arg is None for k in call.keywords):
            raise NotInlinable("star arguments")
        plist = list(params)
        if "staticmethod" not in decos and recv is not None and plist:
            bind[plist[0]] = recv
            plist = plist[1:]
        elif "staticmethod" not in decos and recv is None and plist and plist[0] in ("self", "cls"):
            raise NotInlinable("method called without receiver")
        if len(pos) > len(plist):
            raise NotInlinable("too many positional arguments")
        for p, a_ in zip(plist, pos):
            bind[p] = a_
        for k in call.keywords:
            if k.arg not in plist + kwonly or k.arg in bind:
                raise NotInlinable("unexpected keyword %s" % k.arg)
            bind[k.arg] = k.value
        defaults = h.args.defaults
        allp = [x.arg for x in h.args.posonlyargs + h.args.args]
        for p, d in zip(allp[len(allp) - len(defaults):], defaults):
            bind.setdefault(p, copy.deepcopy(d))
        for x, d in zip(h.args.kwonlyargs, h.args.kw_defaults):
            if d is not None:
                bind.setdefault(x.arg, copy.deepcopy(d))
        for p in allp + kwonly:
            if p not in bind:
                raise NotInlinable("missing argument %s" % p)
        return bind, plist, pos, allp, kwonly

    # -------------------------------------------------------------- expression helpers
    @staticmethod
    def expression_body(h):
        """The returned expression when the helper is nothing but `return <expr>`."""
        body = [b for b in h.body if not (isinstance(b, ast.Expr) and isinstance(
            b.value, ast.Constant) and isinstance(b.value.value, str))]
        if len(body) == 1 and isinstance(body[0], ast.Return) and body[0].value is not None:
            return body[0].value
        return None

    def expand_expression(self, h, recv, call):
        """The helper's returned expression with the arguments substituted.  Arguments that
        are not plain names / constants / attribute chains may be substituted only for a
        parameter that is read exactly once (no duplicated or dropped evaluation)."""
        expr = self.expression_body(h)
        bind, plist, pos, allp, kwonly = self.bind_args(h, recv, call)
        uses = {}
        for n in ast.walk(expr):
            if isinstance(n, ast.Name) and n.id in bind:
                if not isinstance(n.ctx, ast.Load):
                    raise NotInlinable("parameter rebound")
                uses[n.id] = uses.get(n.id, 0) + 1
        for p, a_ in bind.items():
            if not _simple(a_) and uses.get(p, 0) != 1:
                raise NotInlinable("argument would be duplicated or dropped")
        # a parameter read inside a lambda / comprehension is evaluated later or repeatedly
        for n in ast.walk(expr):
            if isinstance(n, (ast.Lambda, ast.ListComp, ast.SetComp, ast.DictComp, ast.GeneratorExp)):
                for x in ast.walk(n):
                    if isinstance(x, ast.Name) and x.id in bind and not _simple(bind[x.id]):
                        raise NotInlinable("argument would move into a deferred scope")
        self.counter += 1
        h._inlined_somewhere = True
        tag = "__i%d" % self.counter
        inner = {n: n + tag for n in _locals_of(h) if n not in bind}
        out = _Rename(inner).visit(copy.deepcopy(expr))

        class Sub(ast.NodeTransformer):
            def visit_Name(self, n):
                if n.id in bind:
                    return copy.deepcopy(bind[n.id])
                return n

        return Sub().visit(out)

    def inline_expressions(self, fnode, cls_name):
        """Replace calls of expression helpers anywhere inside fnode."""
        first = fnode.args.args[0].arg if fnode.args.args else None
        outer = self
        changed = [False]

        class T(ast.NodeTransformer):
            def visit_Call(self, node):
                self.generic_visit(node)
                helper, recv = outer.resolve(node, cls_name, first)
                if helper is None or helper is fnode or not outer.inlinable(helper) \
                        or outer.expression_body(helper) is None:
                    return node
                try:
                    new = outer.expand_expression(helper, recv, node)
                except NotInlinable:
                    return node
                changed[0] = True
                outer.n_inlined += 1
                return ast.copy_location(new, node)

        T().visit(fnode)
        return changed[0]

    # -------------------------------------------------------------- expansion
    def expand(self, h, recv, call):
        """Statements that evaluate the helper for this call, and the result variable."""
        self.counter += 1
        h._inlined_somewhere = True
        tag = "__i%d" % self.counter
        bind, plist, pos, allp, kwonly = self.bind_args(h, recv, call)
        mapping = {n: n + tag for n in _locals_of(h)}
        pre = []
        # evaluation order: positional arguments, then keywords, as written at the call
        order = [p for p, _ in zip(plist, pos)] + [k.arg for k in call.keywords]
        rest = [p for p in allp + kwonly if p not in order]
        stored = {n.id for n in ast.walk(h) if isinstance(n, ast.Name)
                  and isinstance(n.ctx, (ast.Store, ast.Del))}
        direct = {}
        for p in order + rest:
            val = bind[p]
            if isinstance(val, ast.Name) and val.id == p and p in ("self", "cls"):
                mapping.pop(p, None)  # same receiver name: no rebinding needed
                continue
            root = val
            while isinstance(root, ast.Attribute):
                root = root.value
            module_const = isinstance(val, ast.Attribute) and isinstance(root, ast.Name) and \
                root.id not in getattr(self, "_caller_locals", {"self", "cls"}) and \
                root.id not in ("self", "cls")
            if (isinstance(val, (ast.Name, ast.Constant)) or module_const) and p not in stored:
                # a parameter the helper never rebinds, bound to a caller's name or a
                # constant: read the caller's name directly (the helper cannot rebind it,
                # its own locals are renamed apart)
                direct[p] = val
                mapping.pop(p, None)
                continue
            pre.append(ast.copy_location(ast.Assign(
                targets=[ast.Name(id=mapping.get(p, p), ctx=ast.Store())], value=val), call))
        res = "__ret" + tag
        body = [s for s in copy.deepcopy(h.body)
                if not (isinstance(s, ast.Expr) and isinstance(s.value, ast.Constant)
                        and isinstance(s.value.value, str))]
        body = [_Rename(mapping).visit(s) for s in body]
        if direct:
            class _Sub(ast.NodeTransformer):
                def visit_Name(self, n):
                    if n.id in direct and isinstance(n.ctx, ast.Load):
                        return ast.copy_location(copy.deepcopy(direct[n.id]), n)
                    return n
            body = [_Sub().visit(s) for s in body]
        all_returns = [n for s in body for n in ast.walk(s) if isinstance(n, ast.Return)]
        if len(all_returns) == 1 and body and body[-1] is all_returns[0] and \
                all_returns[0].value is not None:
            # straight-line helper ending in its only return: the call *is* that expression
            return pre + body[:-1], all_returns[0].value
        returns_value = any(isinstance(n, ast.Return) and n.value is not None
                            for s in body for n in ast.walk(s))
        lowered = lower_returns(body, res)
        if returns_value or _has_res(lowered, res):
            init = ast.copy_location(ast.Assign(targets=[ast.Name(id=res, ctx=ast.Store())],
                                                value=ast.Constant(value=None)), call)
            lowered = [init] + lowered
        return pre + lowered, ast.Name(id=res, ctx=ast.Load())

    # -------------------------------------------------------------- statement rewriting
    def process_function(self, fnode, cls_name):
        first = fnode.args.args[0].arg if fnode.args.args else None
        changed = False
        self._caller_locals = _locals_of(fnode) | {"self", "cls"}

        def has_helper_call(e):
            for c in ast.walk(e):
                if isinstance(c, ast.Call):
                    h_, _r = self.resolve(c, cls_name, first)
                    if h_ is not None and h_ is not fnode and self.inlinable(h_) and \
                            self.expression_body(h_) is None:
                        return True
            return False

        def desugar(s):
            """Statements equivalent to s in which a helper call that sits inside a list
            comprehension or in the right operand of an `and` test stands in a position the
            inliner can expand; [s] when there is nothing to do."""
            # x = [elt for t in it if c]  ->  x = []; for t' in it: if c: x.append(elt)
            if isinstance(s, ast.Assign) and len(s.targets) == 1 and isinstance(
                    s.targets[0], ast.Name) and isinstance(s.value, ast.ListComp) and \
                    len(s.value.generators) == 1 and not s.value.generators[0].is_async and \
                    has_helper_call(s.value) and not any(
                        isinstance(x, (ast.ListComp, ast.SetComp, ast.DictComp, ast.GeneratorExp,
                                       ast.Lambda))
                        for x in ast.walk(s.value) if x is not s.value):
                gen = s.value.generators[0]
                tgt = s.targets[0].id
                if any(isinstance(x, ast.Name) and x.id == tgt for x in ast.walk(s.value)):
                    return [s]
                self.counter += 1
                tag = "__i%d" % self.counter
                bound = {x.id for x in ast.walk(gen.target) if isinstance(x, ast.Name)}
                mapping = {b: b + tag for b in bound}
                ren = _Rename(mapping)
                target = ren.visit(copy.deepcopy(gen.target))
                elt = ren.visit(copy.deepcopy(s.value.elt))
                ifs = [ren.visit(copy.deepcopy(c)) for c in gen.ifs]
                app = ast.Expr(value=ast.Call(
                    func=ast.Attribute(value=ast.Name(id=tgt, ctx=ast.Load()), attr="append",
                                       ctx=ast.Load()), args=[elt], keywords=[]))
                body = [app]
                # one nested `if` per condition (and per conjunct of an `and`): a helper call
                # that is a whole condition is then in a position the inliner expands
                conds = []
                for c_ in ifs:
                    conds.extend(c_.values if isinstance(c_, ast.BoolOp) and isinstance(
                        c_.op, ast.And) else [c_])
                for c_ in reversed(conds):
                    body = [ast.If(test=c_, body=body, orelse=[])]
                loop = ast.For(target=target, iter=gen.iter, body=body, orelse=[])
                init = ast.Assign(targets=[ast.Name(id=tgt, ctx=ast.Store())],
                                  value=ast.List(elts=[], ctx=ast.Load()))
                out_ = [ast.copy_location(init, s), ast.copy_location(loop, s)]
                for o in out_:
                    ast.fix_missing_locations(o)
                return out_
            return [s]

        def rewrite_list(stmts):
            nonlocal changed
            pre_ = []
            for s0 in stmts:
                d = desugar(s0)
                if len(d) != 1 or d[0] is not s0:
                    changed = True
                pre_.extend(d)
            stmts = pre_
            out = []
            for s in stmts:
                for fld in ("body", "orelse", "finalbody"):
                    lst = getattr(s, fld, None)
                    if isinstance(lst, list) and lst and isinstance(lst[0], ast.stmt):
                        setattr(s, fld, rewrite_list(lst))
                if isinstance(s, ast.Try):
                    for h_ in s.handlers:
                        h_.body = rewrite_list(h_.body)
                done = False
                for call, setter in self.call_sites(s):
                    if done:
                        break
                    helper, recv = self.resolve(call, cls_name, first)
                    if helper is not None and helper is not fnode and self.inlinable(helper):
                        try:
                            pre, res = self.expand(helper, recv, call)
                        except NotInlinable:
                            continue
                        new_stmt = setter(res)
                        if new_stmt is None and not isinstance(res, (ast.Name, ast.Constant)):
                            # the call stood alone: keep evaluating what the helper returned
                            new_stmt = ast.copy_location(ast.Expr(value=res), s)
                        if new_stmt is not None and isinstance(res, ast.Name):
                            pre, new_list = _scatter_tuple_result(pre, new_stmt, res.id)
                        else:
                            new_list = _split_tuple_assign(new_stmt) if new_stmt is not None else []
                        out.extend(pre)
                        out.extend(new_list)
                        changed = True
                        self.n_inlined += 1
                        done = True
                if not done:
                    out.append(s)
            return out

        fnode.body = rewrite_list(fnode.body)
        return changed

    def call_site(self, s):
        """(call, setter) when statement s contains a helper call in an order-preserving
        position; setter(expr) returns the statement with the call replaced by expr (None to
        drop the statement)."""
        def is_call(e):
            return isinstance(e, ast.Call)

        if isinstance(s, ast.Expr) and is_call(s.value):
            return s.value, (lambda e: None)
        # evaluated exactly once before the statement's body: the iterable of a for loop, the
        # test of an if (also under a single `not`)
        if isinstance(s, ast.For) and is_call(s.iter):
            def setter(e, s=s):
                s.iter = e
                return s
            return s.iter, setter
        if isinstance(s, ast.If):
            if is_call(s.test):
                def setter(e, s=s):
                    s.test = e
                    return s
                return s.test, setter
            if isinstance(s.test, ast.UnaryOp) and isinstance(s.test.op, ast.Not) and \
                    is_call(s.test.operand):
                def setter(e, s=s):
                    s.test.operand = e
                    return s
                return s.test.operand, setter
        if isinstance(s, (ast.Assign, ast.Return, ast.AugAssign, ast.AnnAssign)) and \
                getattr(s, "value", None) is not None:
            v = s.value
            if is_call(v):
                def setter(e, s=s):
                    s.value = e
                    return s
                return v, setter
            if isinstance(v, ast.BinOp):
                if is_call(v.right) and _simple(v.left):
                    def setter(e, s=s, v=v):
                        v.right = e
                        return s
                    return v.right, setter
                if is_call(v.left) and not any(isinstance(x, ast.Call) for x in ast.walk(v.right)):
                    def setter(e, s=s, v=v):
                        v.left = e
                        return s
                    return v.left, setter
        return None

    def call_sites(self, s):
        """Candidate (call, setter) pairs of statement s, in order of preference: the
        statement's own call, then the one call among the arguments of that call when
        everything else that the outer call evaluates is a plain name or constant
        (errors.extend(self._helper(x)): evaluating the helper first changes nothing)."""
        site = self.call_site(s)
        if site is None:
            return
        yield site
        outer = site[0]
        if not (isinstance(outer, ast.Call) and _simple(outer.func)):
            return
        operands = list(outer.args) + [k.value for k in outer.keywords]
        calls = [a for a in operands if isinstance(a, ast.Call)]
        rest = [a for a in operands if not isinstance(a, ast.Call)]
        if len(calls) != 1 or not all(isinstance(a, (ast.Name, ast.Constant)) for a in rest):
            return
        inner = calls[0]

        def setter(e, s=s, outer=outer, inner=inner):
            for i, a in enumerate(outer.args):
                if a is inner:
                    outer.args[i] = e
            for k in outer.keywords:
                if k.value is inner:
                    k.value = e
            return s
        yield inner, setter

    def run(self):
        for _ in range(MAX_PASSES):
            changed = False
            for s in self.tree.body:
                if isinstance(s, ast.FunctionDef):
                    changed |= self.inline_expressions(s, None)
                    changed |= self.process_function(s, None)
                elif isinstance(s, ast.ClassDef):
                    for m in s.body:
                        if isinstance(m, ast.FunctionDef):
                            changed |= self.inline_expressions(m, s.name)
                            changed |= self.process_function(m, s.name)
            if not changed:
                break
        ast.fix_missing_locations(self.tree)
        return self.tree


def _scatter_tuple_result(pre, stmt, res):
    """a, b, c = <res>  where every lowered return assigned a tuple display of that arity to
    <res>: give each component its own result temporary, so that `a`, `b` and `c` have
    ordinary per-branch definitions (a = x under the guards of `return x, y, z`)."""
    if not (isinstance(stmt, ast.Assign) and len(stmt.targets) == 1 and isinstance(
            stmt.targets[0], ast.Tuple) and isinstance(stmt.value, ast.Name)
            and stmt.value.id == res and all(isinstance(t, ast.Name) for t in stmt.targets[0].elts)):
        return pre, _split_tuple_assign(stmt)
    k = len(stmt.targets[0].elts)
    sites = []

    def collect(stmts):
        for st in stmts:
            if isinstance(st, ast.Assign) and any(isinstance(t, ast.Name) and t.id == res
                                                  for t in st.targets):
                sites.append(st)
            for fld in ("body", "orelse", "finalbody"):
                lst = getattr(st, fld, None)
                if isinstance(lst, list) and lst and isinstance(lst[0], ast.stmt):
                    collect(lst)
            if isinstance(st, ast.Try):
                for h in st.handlers:
                    collect(h.body)
    collect(pre)
    real = [st for st in sites if not (isinstance(st.value, ast.Constant) and st.value.value is None)]
    if not real or not all(isinstance(st.value, ast.Tuple) and len(st.value.elts) == k
                           and len(st.targets) == 1 for st in real):
        return pre, _split_tuple_assign(stmt)
    names = ["%s__i%d" % (res, i) for i in range(k)]

    def rewrite(stmts):
        out = []
        for st in stmts:
            for fld in ("body", "orelse", "finalbody"):
                lst = getattr(st, fld, None)
                if isinstance(lst, list) and lst and isinstance(lst[0], ast.stmt):
                    setattr(st, fld, rewrite(lst))
            if isinstance(st, ast.Try):
                for h in st.handlers:
                    h.body = rewrite(h.body)
            if st in real:
                for nm, e in zip(names, st.value.elts):
                    out.append(ast.copy_location(ast.Assign(
                        targets=[ast.Name(id=nm, ctx=ast.Store())], value=e), st))
                out.append(st)  # keep the tuple as well (done flags hang on it)
            else:
                out.append(st)
        return out
    pre = rewrite(pre)
    final = [ast.copy_location(ast.Assign(targets=[t], value=ast.Name(id=nm, ctx=ast.Load())), stmt)
             for t, nm in zip(stmt.targets[0].elts, names)]
    return pre, final


def _split_tuple_assign(stmt):
    """a, b = (x, y)  ->  a = x; b = y  when no target is read by any element (so the
    sequential form evaluates the same values)."""
    if isinstance(stmt, ast.Assign) and len(stmt.targets) == 1 and isinstance(
            stmt.targets[0], ast.Tuple) and isinstance(stmt.value, ast.Tuple) and len(
            stmt.targets[0].elts) == len(stmt.value.elts) and all(
            isinstance(t, ast.Name) for t in stmt.targets[0].elts):
        tnames = {t.id for t in stmt.targets[0].elts}
        read = {n.id for e in stmt.value.elts for n in ast.walk(e) if isinstance(n, ast.Name)}
        if not (tnames & read):
            return [ast.copy_location(ast.Assign(targets=[t], value=e), stmt)
                    for t, e in zip(stmt.targets[0].elts, stmt.value.elts)]
    return [stmt]


def split_tuple_assigns(tree):
    """a, b = x, y  ->  a = x; b = y  everywhere (same condition as _split_tuple_assign)."""
    for node in ast.walk(tree):
        for fld in ("body", "orelse", "finalbody"):
            lst = getattr(node, fld, None)
            if isinstance(lst, list) and lst and isinstance(lst[0], ast.stmt):
                new = []
                for st in lst:
                    new.extend(_split_tuple_assign(st))
                if len(new) != len(lst):
                    setattr(node, fld, new)


def _has_res(stmts, res):
    for s in stmts:
        for n in ast.walk(s):
            if isinstance(n, ast.Name) and n.id == res:
                return True
    return False


def inline_tree(tree, no_inline=frozenset()):
    """Deep copy of the module tree with private helpers inlined; (tree, number inlined)."""
    t = copy.deepcopy(tree)
    split_tuple_assigns(t)
    n_unrolled = unroll_constant_loops(t)
    n_unrolled += propagate_module_constants(t)
    inl = Inliner(t)
    inl.no_inline = no_inline
    inl.n_inlined += n_unrolled
    inl.run()
    return t, inl.n_inlined


# ---------------------------------------------------------------------- module constants
def propagate_module_constants(tree):
    """NAME = "literal" (or an int), bound exactly once at module level and never re-bound in
    a function: every read of NAME inside the functions of the module becomes the literal, so
    that `entry[KEY_ID]` and `entry["id"]` are the same text for every rule.  Returns the
    number of reads replaced."""
    consts, counts = {}, {}
    for s_ in tree.body:
        targets = []
        if isinstance(s_, ast.Assign):
            targets = [t for t in s_.targets if isinstance(t, ast.Name)]
            val = s_.value
        elif isinstance(s_, ast.AnnAssign) and isinstance(s_.target, ast.Name) and s_.value is not None:
            targets, val = [s_.target], s_.value
        for t in targets:
            counts[t.id] = counts.get(t.id, 0) + 1
            if isinstance(val, ast.Constant) and isinstance(val.value, (str, int)) and not isinstance(
                    val.value, bool):
                consts[t.id] = val.value
    consts = {k: v for k, v in consts.items() if counts.get(k) == 1}
    if not consts:
        return 0
    n = 0

    def funcs(node):
        for x in ast.iter_child_nodes(node):
            if isinstance(x, (ast.FunctionDef, ast.AsyncFunctionDef)):
                yield x
            elif isinstance(x, ast.ClassDef):
                for y in funcs(x):
                    yield y

    class _Sub(ast.NodeTransformer):
        def __init__(self, shadow):
            self.shadow = shadow
            self.n = 0

        def visit_Name(self, node):
            if isinstance(node.ctx, ast.Load) and node.id in consts and node.id not in self.shadow:
                self.n += 1
                return ast.copy_location(ast.Constant(value=consts[node.id]), node)
            return node

        def visit_Global(self, node):
            return node

    for fn in funcs(tree):
        shadow = {a.arg for a in fn.args.args + fn.args.kwonlyargs + fn.args.posonlyargs}
        if fn.args.vararg:
            shadow.add(fn.args.vararg.arg)
        if fn.args.kwarg:
            shadow.add(fn.args.kwarg.arg)
        for x in ast.walk(fn):
            if isinstance(x, ast.Name) and isinstance(x.ctx, (ast.Store, ast.Del)):
                shadow.add(x.id)
            elif isinstance(x, (ast.Global, ast.Nonlocal)):
                shadow |= set(x.names)
        sub = _Sub(shadow)
        # the signature (defaults) stays as written; only the body is rewritten
        fn.body = [sub.visit(b) for b in fn.body]
        n += sub.n
    return n


# ---------------------------------------------------------------------- constant loops
MAX_UNROLL = 16


class _ConstLoops(ast.NodeTransformer):
    """Unrolls `for x in NAMES` / `{x: .. for x in NAMES}` / `[.. for x in NAMES]` where NAMES
    is a module- or class-level tuple / list of string constants, and turns
    getattr / setattr / hasattr with a constant name into plain attribute syntax.  Table-driven
    code (`for attr in self._persisted_attrs: data[attr] = copy(getattr(self, attr))`) then
    reads like the hand-written sequence of statements it stands for."""

    def __init__(self, tree):
        self.module_consts = {}
        self.class_consts = {}
        self.n = 0
        for s in tree.body:
            self._collect(s, self.module_consts)
            if isinstance(s, ast.ClassDef):
                d = self.class_consts.setdefault(s.name, {})
                for m in s.body:
                    self._collect(m, d)
        self.cls = None

    @staticmethod
    def _collect(s, into):
        if isinstance(s, ast.Assign) and len(s.targets) == 1 and isinstance(
                s.targets[0], ast.Name) and isinstance(s.value, (ast.Tuple, ast.List)) and \
                s.value.elts and len(s.value.elts) <= MAX_UNROLL and all(
                    isinstance(e, ast.Constant) and isinstance(e.value, str) for e in s.value.elts):
            into[s.targets[0].id] = [e.value for e in s.value.elts]

    def _values(self, it):
        if isinstance(it, ast.Name):
            return self.module_consts.get(it.id)
        if isinstance(it, ast.Attribute) and isinstance(it.value, ast.Name) and it.value.id in (
                "self", "cls") and self.cls:
            return self.class_consts.get(self.cls, {}).get(it.attr)
        if isinstance(it, ast.Attribute) and isinstance(it.value, ast.Name) and \
                it.value.id in self.class_consts:
            return self.class_consts[it.value.id].get(it.attr)
        return None

    def visit_ClassDef(self, node):
        prev, self.cls = self.cls, node.name
        self.generic_visit(node)
        self.cls = prev
        return node

    @staticmethod
    def _subst(node, var, value):
        class S(ast.NodeTransformer):
            def visit_Name(self, n):
                if n.id == var and isinstance(n.ctx, ast.Load):
                    return ast.copy_location(ast.Constant(value=value), n)
                return n
        return S().visit(copy.deepcopy(node))

    def visit_For(self, node):
        self.generic_visit(node)
        vals = self._values(node.iter)
        if vals is None or not isinstance(node.target, ast.Name) or node.orelse:
            return node
        if any(isinstance(x, (ast.Break, ast.Continue)) for b in node.body for x in ast.walk(b)):
            return node
        var = node.target.id
        if any(isinstance(x, ast.Name) and x.id == var and isinstance(x.ctx, ast.Store)
               for b in node.body for x in ast.walk(b)):
            return node
        out = []
        for v in vals:
            for b in node.body:
                out.append(self._attrs(self._subst(b, var, v)))
        self.n += 1
        return out

    def _comp(self, node):
        if len(node.generators) != 1:
            return None
        g = node.generators[0]
        vals = self._values(g.iter)
        if vals is None or not isinstance(g.target, ast.Name) or g.ifs or g.is_async:
            return None
        return g.target.id, vals

    def visit_DictComp(self, node):
        self.generic_visit(node)
        r = self._comp(node)
        if r is None:
            return node
        var, vals = r
        self.n += 1
        return ast.copy_location(ast.Dict(
            keys=[self._attrs(self._subst(node.key, var, v)) for v in vals],
            values=[self._attrs(self._subst(node.value, var, v)) for v in vals]), node)

    def visit_ListComp(self, node):
        self.generic_visit(node)
        r = self._comp(node)
        if r is None:
            return node
        var, vals = r
        self.n += 1
        return ast.copy_location(ast.List(
            elts=[self._attrs(self._subst(node.elt, var, v)) for v in vals], ctx=ast.Load()), node)

    def _attrs(self, node):
        """getattr(o, 'a') -> o.a ; hasattr kept ; setattr(o, 'a', v) statement -> o.a = v"""
        class A(ast.NodeTransformer):
            def visit_Call(self, c):
                self.generic_visit(c)
                if isinstance(c.func, ast.Name) and c.func.id == "getattr" and len(c.args) == 2 \
                        and not c.keywords and isinstance(c.args[1], ast.Constant) and isinstance(
                        c.args[1].value, str) and c.args[1].value.isidentifier():
                    return ast.copy_location(ast.Attribute(
                        value=c.args[0], attr=c.args[1].value, ctx=ast.Load()), c)
                return c

            def visit_Expr(self, e):
                self.generic_visit(e)
                c = e.value
                if isinstance(c, ast.Call) and isinstance(c.func, ast.Name) and \
                        c.func.id == "setattr" and len(c.args) == 3 and not c.keywords and \
                        isinstance(c.args[1], ast.Constant) and isinstance(c.args[1].value, str) \
                        and c.args[1].value.isidentifier():
                    return ast.copy_location(ast.Assign(targets=[ast.Attribute(
                        value=c.args[0], attr=c.args[1].value, ctx=ast.Store())],
                        value=c.args[2]), e)
                return e
        return A().visit(node)


def unroll_constant_loops(tree):
    t = _ConstLoops(tree)
    t.visit(tree)
    if t.n:
        ast.fix_missing_locations(tree)
    return t.n

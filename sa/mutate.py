"""AST-computed edits of the repository source, applied in memory.

Used for positive controls (every run) and per-instance mutation adequacy (thorough tier):
the edited source is re-parsed into a fresh Program and the rule is re-run on it.  Nothing is
written to /repo.
"""

import ast
import copy

from sa.core import AnalysisError, Program, unparse


class EditFailed(Exception):
    pass


def _module_tree(prog, relpath):
    m = prog.by_relpath.get(relpath)
    if m is None:
        raise EditFailed("no module %s" % relpath)
    return copy.deepcopy(m.raw_tree)


def apply(prog, relpath, editor):
    """Program with `relpath` replaced by editor(tree) (tree is a deep copy)."""
    tree = _module_tree(prog, relpath)
    editor(tree)
    ast.fix_missing_locations(tree)
    src = ast.unparse(tree)
    return Program(prog.repo, overrides={relpath: src}, inline=prog.inline)


def apply_many(prog, edits):
    overrides = {}
    for relpath, editor in edits:
        if relpath in overrides:
            tree = ast.parse(overrides[relpath])
        else:
            tree = _module_tree(prog, relpath)
        editor(tree)
        ast.fix_missing_locations(tree)
        overrides[relpath] = ast.unparse(tree)
    return Program(prog.repo, overrides=overrides, inline=prog.inline)


def find_def(tree, qual):
    """FunctionDef/ClassDef named 'Class.method' or 'func' in a module tree."""
    parts = qual.split(".")
    body = tree.body
    node = None
    for p in parts:
        node = None
        for s in body:
            if isinstance(s, (ast.FunctionDef, ast.ClassDef, ast.AsyncFunctionDef)) and s.name == p:
                node = s
                break
        if node is None:
            raise EditFailed("definition %s not found" % qual)
        body = node.body
    return node


def find_assign(tree, name):
    for s in tree.body:
        if isinstance(s, ast.Assign) and any(
                isinstance(t, ast.Name) and t.id == name for t in s.targets):
            return s
    raise EditFailed("assignment %s not found" % name)


# ---------------------------------------------------------------------- table edits
def _table_cell(tree, prog, module, table, row, event):
    node = find_assign(tree, table).value
    for rk, rv in zip(node.keys, node.values):
        if prog.fold(rk, module) == row:
            if not isinstance(rv, ast.Dict):
                raise EditFailed("row %s of %s is computed, not a dict display" % (row, table))
            for i, (ck, cv) in enumerate(zip(rv.keys, rv.values)):
                if ck is None:
                    continue  # **fragment: its cells are not individually editable
                if prog.fold(ck, module) == event:
                    return rv, i
            return rv, None
    raise EditFailed("row %s not found in %s" % (row, table))


def drop_cell(prog, table, row, event):
    mod = prog.module("machines")

    def ed(tree):
        rv, i = _table_cell(tree, prog, mod, table, row, event)
        if i is None:
            raise EditFailed("cell (%s,%s) not found" % (row, event))
        del rv.keys[i]
        del rv.values[i]

    return apply(prog, mod.relpath, ed)


def set_cell(prog, table, row, event, target):
    """Retarget (or add) a cell; event/target are the string values."""
    mod = prog.module("machines")

    def ed(tree):
        rv, i = _table_cell(tree, prog, mod, table, row, event)
        val = ast.Constant(value=target)
        if i is None:
            rv.keys.append(ast.Constant(value=event))
            rv.values.append(val)
        else:
            rv.values[i] = val

    return apply(prog, mod.relpath, ed)


def set_list(prog, short_module, name, values):
    mod = prog.module(short_module)

    def ed(tree):
        a = find_assign(tree, name)
        a.value = ast.List(elts=[ast.Constant(value=v) for v in values], ctx=ast.Load())

    return apply(prog, mod.relpath, ed)


# ---------------------------------------------------------------------- statement edits
class _Rewriter(ast.NodeTransformer):
    def __init__(self, pred, repl, limit=None):
        self.pred = pred
        self.repl = repl
        self.limit = limit
        self.count = 0

    def generic_visit(self, node):
        node = super(_Rewriter, self).generic_visit(node)
        return node

    def visit(self, node):
        node = super(_Rewriter, self).visit(node)
        if node is not None and isinstance(node, ast.AST) and self.pred(node):
            if self.limit is None or self.count < self.limit:
                self.count += 1
                return self.repl(node)
        return node


def rewrite_in(prog, relpath, qual, pred, repl, limit=None, must=1):
    """Within definition `qual` replace nodes satisfying pred by repl(node) (None deletes)."""
    def ed(tree):
        d = find_def(tree, qual) if qual else tree
        rw = _Rewriter(pred, repl, limit)
        rw.visit(d)
        if rw.count < must:
            raise EditFailed("edit matched %d node(s) in %s, expected >= %d" % (rw.count, qual, must))
        _fill_empty_bodies(d)

    return apply(prog, relpath, ed)


def _fill_empty_bodies(root):
    for n in ast.walk(root):
        for fld in ("body", "orelse", "finalbody"):
            lst = getattr(n, fld, None)
            if isinstance(lst, list) and fld == "body" and not lst and isinstance(
                    n, (ast.If, ast.For, ast.While, ast.With, ast.FunctionDef, ast.ExceptHandler,
                        ast.Try)):
                lst.append(ast.Pass())


def is_call_to(node, name):
    if isinstance(node, ast.Call):
        f = node.func
        return (isinstance(f, ast.Attribute) and f.attr == name) or (
            isinstance(f, ast.Name) and f.id == name)
    return False


def stmt_calls(name):
    return lambda n: isinstance(n, ast.Expr) and is_call_to(n.value, name)


def unwrap_call(name, arg=0):
    """pred/repl pair replacing name(x, ...) by x."""
    return (lambda n: is_call_to(n, name)), (lambda n: n.args[arg])

"""E7 - optional-value contradiction analysis (Engler-style beliefs) and rule U1.

* Optional accessors: repository functions with an explicit ``return None`` path (or
  ``x if c else None``).  A local bound to their result is dereferenced (subscript, attribute,
  method call, ``in``) only under a presence test, or the site is listed in the committed
  reviewed table with the invariant that makes it safe.
* Optional keys: a key of a staged entry / execution record is optional when some site tests
  ``k in d``, reads it with ``.get(k ...)`` or removes it with ``.pop(k, None)``; a plain
  ``d[k]`` read elsewhere must then be guarded by a presence test (or dominated by a store).
"""

import ast
import json
import os

from sa.core import AnalysisError, norm_src, unparse
from sa.effects import expand_alternatives
from sa.guards import FuncGuards, callee_name, calls_in, fmt_atoms, textually_before
from sa.report import Finding, RuleResult

VERIF = os.path.dirname(os.path.dirname(os.path.abspath(__file__)))
SCOPE = ("conducting", "machines")


def optional_accessors(prog):
    out = {}
    for f in prog.all_functions():
        if f.module.short not in SCOPE:
            continue
        for r in ast.walk(f.node):
            if isinstance(r, ast.Return):
                v = r.value
                if v is None or (isinstance(v, ast.Constant) and v.value is None):
                    if v is not None:
                        out[f.name] = f
                elif isinstance(v, ast.IfExp) and any(
                        isinstance(x, ast.Constant) and x.value is None for x in (v.body, v.orelse)):
                    out[f.name] = f
    return out


def _presence(atoms, name):
    for a in atoms:
        if a[0] == "truthy" and a[1] == name:
            return True
        if a[0] == "isnot" and a[1] == name and a[2] is None:
            return True
        if a[0] == "or":
            # every alternative must establish presence
            if all(_presence(list(alt), name) for alt in a[1]):
                return True
    return False


def _derefs(fnode, name):
    """Nodes where local `name` is dereferenced."""
    out = []
    for n in ast.walk(fnode):
        if isinstance(n, ast.Subscript) and isinstance(n.value, ast.Name) and n.value.id == name:
            out.append(n)
        elif isinstance(n, ast.Attribute) and isinstance(n.value, ast.Name) and n.value.id == name:
            out.append(n)
        elif isinstance(n, ast.Compare) and any(isinstance(op, (ast.In, ast.NotIn)) for op in n.ops):
            for c in n.comparators:
                if isinstance(c, ast.Name) and c.id == name:
                    out.append(n)
    return out


def _dominates(a, b):
    """Statement a is executed before statement b on every path that reaches b: a precedes b
    in a statement list that b sits in (directly or nested below)."""
    if a is b:
        return False
    node = b
    while node is not None:
        par = getattr(node, "_parent", None)
        for fld in ("body", "orelse", "finalbody"):
            lst = getattr(par, fld, None)
            if isinstance(lst, list) and node in lst and a in lst:
                return lst.index(a) < lst.index(node)
        node = par
    return False


def _stmt_kind(stmt):
    """Coarse, refactoring-stable description of the statement a dereference sits in."""
    def call_name(v):
        return "call %s()" % (callee_name(v) or "?")
    if isinstance(stmt, ast.Expr) and isinstance(stmt.value, ast.Call):
        return call_name(stmt.value)
    if isinstance(stmt, (ast.Assign, ast.AnnAssign)) and isinstance(
            getattr(stmt, "value", None), ast.Call):
        return call_name(stmt.value)
    if isinstance(stmt, ast.AugAssign):
        return "update"
    if isinstance(stmt, (ast.Assign, ast.AnnAssign)):
        return "assignment"
    if isinstance(stmt, (ast.If, ast.While)):
        return "test"
    if isinstance(stmt, ast.Return):
        return "return"
    if isinstance(stmt, ast.For):
        return "loop"
    return type(stmt).__name__.lower()


CONSTRUCTORS = ("add_task_state", "add_staged_task")


def _deref_kind(d):
    """Coarse description of one dereference (keyed findings and reviewed entries use it, so
    that renaming, re-wrapping or moving the statement does not detach them)."""
    par = getattr(d, "_parent", None)
    if isinstance(d, ast.Subscript):
        key = "[%r]" % d.slice.value if isinstance(d.slice, ast.Constant) else "[*]"
        if isinstance(d.ctx, ast.Store):
            return "store %s" % key
        if isinstance(d.ctx, ast.Del):
            return "delete %s" % key
        if isinstance(par, ast.AugAssign) and par.target is d:
            return "update %s" % key
        # handed to one of the engine's record / staging constructors: which keys are passed
        # is incidental, the consumer is what the invariant is about
        anc, hops = par, 0
        while anc is not None and not isinstance(anc, ast.stmt) and hops < 6:
            if isinstance(anc, ast.Call) and callee_name(anc) in CONSTRUCTORS:
                return "argument of %s()" % callee_name(anc)
            anc = getattr(anc, "_parent", None)
            hops += 1
        return "read %s" % key
    if isinstance(d, ast.Attribute):
        if isinstance(par, ast.Call) and par.func is d:
            a0 = par.args[0] if par.args else None
            if isinstance(a0, ast.Constant) and isinstance(a0.value, str):
                return "call .%s(%r)" % (d.attr, a0.value)
            return "call .%s()" % d.attr
        return "attribute .%s" % d.attr
    if isinstance(d, ast.Compare):
        if isinstance(d.left, ast.Constant):
            return "membership test %r" % d.left.value
        return "membership test"
    return type(d).__name__


def _reviewed_index():
    """{(function qualname, construct): entry}"""
    out = {}
    for e in load_reviewed():
        for fn in e.get("functions") or [e.get("function")]:
            out[(fn, e["construct"])] = e
    return out


def load_reviewed():
    p = os.path.join(VERIF, "reviewed_derefs.json")
    if not os.path.exists(p):
        return []
    return json.load(open(p)).get("entries", [])


_OLD2NEW = {}


def rule_E7(ctx, functions=None, only_keys=None):
    res = RuleResult("E7", "values that may be absent (result of an accessor that can return "
                           "None, optional keys of staged entries / records) are dereferenced "
                           "only under a presence test")
    prog = ctx.prog
    acc = optional_accessors(prog)
    res.facts["optional_accessors"] = sorted(f.qualname for f in acc.values())
    reviewed = _reviewed_index()
    used_reviews = set()
    for f in prog.all_functions():
        if f.module.short not in SCOPE:
            continue
        if functions and f.qualname not in functions:
            continue
        fg = None
        # ---- optional accessor results
        for n in (ast.walk(f.node) if only_keys is None else ()):
            if not (isinstance(n, ast.Assign) and len(n.targets) == 1 and isinstance(
                    n.targets[0], ast.Name) and isinstance(n.value, ast.Call)):
                continue
            cn = callee_name(n.value)
            if cn not in acc:
                continue
            var = n.targets[0].id
            fg = fg or FuncGuards(prog, f)
            # other (non-optional) definitions of the same variable make uses ambiguous: only
            # uses that are textually after this assignment and before a re-assignment count
            redefs = sorted([d._ord for d in ast.walk(f.node) if isinstance(d, ast.Assign)
                             and any(isinstance(t, ast.Name) and t.id == var for t in d.targets)])
            nxt = [l for l in redefs if l > n._ord]
            end = nxt[0] if nxt else 10 ** 9
            # a re-assignment's own right-hand side still reads the old value
            end_stmt = next((d for d in ast.walk(f.node) if getattr(d, "_ord", None) == end), None)
            end_last = max((x._ord for x in ast.walk(end_stmt) if hasattr(x, "lineno")), default=end) if end_stmt else end
            first_unguarded = []   # statements of earlier unguarded dereferences
            for d in sorted(_derefs(f.node, var), key=lambda x: x._ord):
                if not (n._ord < d._ord <= end_last):
                    continue
                atoms = fg.atoms(d)
                con = "result of %s(): %s" % (cn, _deref_kind(d))
                inst = (f.qualname, con)
                if _presence(atoms, var) or all(
                        _presence(alt, var) for alt in expand_alternatives(f, fg, atoms)):
                    res.holds(inst)
                    continue
                # an earlier unguarded dereference that every path to this one passes through
                # fails first: only the first one on a path is a finding of its own
                st = _stmt(d)
                if any(_dominates(e_, st) for e_ in first_unguarded):
                    res.holds(inst, "reached only after an earlier dereference of %s" % var)
                    continue
                first_unguarded.append(st)
                if False:
                    pass
                elif (f.qualname, con) in reviewed or (
                        f.qualname, "result of %s(): *" % cn) in reviewed:
                    used_reviews.add(con)
                    ent = reviewed.get((f.qualname, con)) or reviewed[
                        (f.qualname, "result of %s(): *" % cn)]
                    res.holds(inst, "reviewed: " + ent["reason"])
                else:
                    res.violated(inst, Finding(
                        "E7", f.file, f.qualname, con,
                        "%s() can return None, and %s is dereferenced here without a presence "
                        "test (guards: %s)" % (cn, var, fmt_atoms(atoms)), line=d.lineno))
    # ---- optional keys
    optkeys = _optional_keys(prog)
    if only_keys is not None:
        optkeys = optkeys & set(only_keys)
    res.facts["optional_keys"] = sorted(optkeys)
    for f in prog.all_functions():
        if f.module.short not in SCOPE:
            continue
        if functions and f.qualname not in functions:
            continue
        fg = None
        earlier = {}   # (var, key) -> statements of earlier unguarded dereferences
        for n in sorted((x for x in ast.walk(f.node) if hasattr(x, "_ord")),
                        key=lambda x: x._ord):
            if not (isinstance(n, ast.Subscript) and isinstance(n.ctx, ast.Load)
                    and isinstance(n.slice, ast.Constant) and n.slice.value in optkeys
                    and isinstance(n.value, ast.Name)):
                continue
            key = n.slice.value
            var = n.value.id
            if not _is_entry_var(f, var):
                continue
            fg = fg or FuncGuards(prog, f)
            atoms = fg.atoms(n)
            par_ = getattr(n, "_parent", None)
            deeper = isinstance(par_, (ast.Subscript, ast.Attribute)) and getattr(
                par_, "value", None) is n
            kind = _deref_kind(par_ if deeper else n)
            if kind == "read [%r]" % key:
                kind = "read"
            con = "key %r: %s" % (key, kind)
            inst = (f.qualname, con)
            def _has_key(ats):
                return any(
                    (a[0] == "in" and a[1] == repr(key) and a[2] == ("src", var))
                    or (a[0] == "truthy" and ("%s.get(%r" % (var, key)) in str(a[1]))
                    or (a[0] == "truthy" and str(a[1]).replace('"', "'") == "%s[%r]" % (var, key))
                    for a in ats)
            present = _has_key(atoms)
            if not present:
                # the test may hide in a boolean local (is_reusable = x is not None and 'k' in x)
                alts_ = expand_alternatives(f, fg, atoms)
                present = bool(alts_) and all(_has_key(alt) for alt in alts_)
            stored = _dominating_store(f, n, var, key)
            st_ = _stmt(n)
            def _same_entry(e_):
                # the variable is not re-bound (and the key not removed) in between
                for x in ast.walk(f.node):
                    if not (hasattr(x, "_ord") and e_._ord < x._ord < n._ord):
                        continue
                    if isinstance(x, ast.Assign) and any(
                            isinstance(t, ast.Name) and t.id == var for t in x.targets):
                        return False
                    if isinstance(x, ast.Call) and callee_name(x) == "pop" and isinstance(
                            x.func, ast.Attribute) and isinstance(x.func.value, ast.Name) and \
                            x.func.value.id == var:
                        return False
                return True
            if not (present or stored) and any(
                    _dominates(e_, st_) and _same_entry(e_)
                    for e_ in earlier.get((var, key), [])):
                # every path to this read has already read the same key of the same entry
                res.holds(inst, "reached only after an earlier read of %s[%r]" % (var, key))
                continue
            if not (present or stored):
                earlier.setdefault((var, key), []).append(st_)
            if present or stored:
                res.holds(inst)
            elif (f.qualname, con) in reviewed:
                used_reviews.add(con)
                res.holds(inst, "reviewed: " + reviewed[(f.qualname, con)]["reason"])
            else:
                res.violated(inst, Finding(
                    "E7", f.file, f.qualname, con,
                    "key %r of this entry is optional (tested / popped elsewhere) but read here "
                    "unconditionally (guards: %s)" % (key, fmt_atoms(atoms)), line=n.lineno))
    res.facts["reviewed_used"] = len(used_reviews)
    return res


def _stmt(n):
    while n is not None and not isinstance(n, ast.stmt):
        n = getattr(n, "_parent", None)
    return n


ENTRY_ACCESSORS = ("get_staged_task", "get_task_state_entry", "add_staged_task", "add_task_state",
                   "get_task")


def _is_entry_var(f, var):
    """The variable is bound to a staged entry / execution record (accessor result, loop over
    staged tasks / sequence)."""
    for n in ast.walk(f.node):
        if isinstance(n, ast.Assign) and any(isinstance(t, ast.Name) and t.id == var
                                             for t in n.targets):
            if isinstance(n.value, ast.Call) and callee_name(n.value) in ENTRY_ACCESSORS:
                # WorkflowConductor.get_task renders a task for the provider (a fresh dict
                # with a fixed set of keys); only WorkflowState.get_task returns a record
                if callee_name(n.value) == "get_task" and isinstance(
                        n.value.func, ast.Attribute) and "workflow_state" not in unparse(
                        n.value.func.value) and ".WorkflowState." not in f.qualname:
                    continue
                return True
        if isinstance(n, (ast.For, ast.comprehension)):
            names = {x.id for x in ast.walk(n.target) if isinstance(x, ast.Name)}
            it = unparse(n.iter)
            if var in names and (it.endswith(".staged") or "get_staged_tasks(" in it
                                 or it.endswith(".sequence") or "get_tasks" in it
                                 or "get_terminal_tasks(" in it):
                return True
    if var in f.params and var in ("task_state_entry", "task_state", "staged_task"):
        return True
    return False


def _optional_keys(prog):
    """Keys of staged entries / records that some site treats as possibly absent."""
    keys = set()
    for f in prog.all_functions():
        if f.module.short not in SCOPE:
            continue
        for n in ast.walk(f.node):
            if isinstance(n, ast.Compare) and len(n.ops) == 1 and isinstance(
                    n.ops[0], (ast.In, ast.NotIn)) and isinstance(n.left, ast.Constant) and \
                    isinstance(n.left.value, str) and isinstance(n.comparators[0], ast.Name) and \
                    _is_entry_var(f, n.comparators[0].id):
                keys.add(n.left.value)
            if isinstance(n, ast.Call) and isinstance(n.func, ast.Attribute) and n.func.attr in (
                    "get", "pop") and n.args and isinstance(n.args[0], ast.Constant) and isinstance(
                    n.args[0].value, str) and isinstance(n.func.value, ast.Name) and \
                    _is_entry_var(f, n.func.value.id):
                keys.add(n.args[0].value)
    return keys


def _dominating_store(f, node, var, key):
    """An assignment var[key] = ... earlier in the same or an enclosing statement list."""
    s = _stmt(node)
    cur = s
    while cur is not None and cur is not f.node:
        par = getattr(cur, "_parent", None)
        for fld in ("body", "orelse", "finalbody"):
            lst = getattr(par, fld, None)
            if isinstance(lst, list) and cur in lst:
                for prev in lst[:lst.index(cur)]:
                    if isinstance(prev, ast.Assign) and _stores(prev, var, key):
                        return True
                    # if <k absent or empty in d>: d[k] = v   (initialise when absent): after
                    # the statement the key is present whichever way the test went.  The test
                    # must be implied by absence: 'k not in d', 'not d.get(k)', or a
                    # disjunction with such a disjunct
                    if isinstance(prev, ast.If) and _true_when_absent(prev.test, var, key):
                        if any(isinstance(b, ast.Assign) and _stores(b, var, key) for b in prev.body):
                            return True
        cur = par
    return False


def _true_when_absent(test, var, key):
    txt = unparse(test).replace('"', "'")
    if isinstance(test, ast.BoolOp):
        if isinstance(test.op, ast.Or):
            return any(_true_when_absent(v, var, key) for v in test.values)
        return False
    if txt == "%r not in %s" % (key, var):
        return True
    if isinstance(test, ast.UnaryOp) and isinstance(test.op, ast.Not):
        inner = unparse(test.operand).replace('"', "'")
        return inner in ("%s.get(%r)" % (var, key), "%s.get(%r, None)" % (var, key),
                         "%r in %s" % (key, var))
    return False


def _stores(assign, var, key):
    return any(isinstance(t, ast.Subscript) and isinstance(t.value, ast.Name)
               and t.value.id == var and isinstance(t.slice, ast.Constant)
               and t.slice.value == key for t in assign.targets)


# ====================================================================== U1
PARTIAL = ("get_task", "get_next_tasks", "get_prev_tasks", "is_join_task", "is_split_task",
           "in_cycle")


def rule_U1(ctx):
    res = RuleResult("U1", "during inspection, a task name taken from a transition (not yet "
                           "validated) reaches an accessor that raises KeyError for unknown "
                           "tasks only under a has_task / membership guard")
    prog = ctx.prog
    cls = prog.cls("specs.native.v1.models.TaskMappingSpec")
    reviewed = {e["construct"]: e for e in load_reviewed()}
    # functions reachable from inspection entry points of the class
    roots = [m for name, m in cls.methods.items()
             if name.startswith("detect_") or name.startswith("inspect_")]
    if len(roots) < 4:
        raise AnalysisError("inspection methods of TaskMappingSpec vanished")
    reach, todo = {}, list(roots)
    while todo:
        f = todo.pop()
        if f.qualname in reach:
            continue
        reach[f.qualname] = f
        for c in calls_in(f.node):
            if isinstance(c.func, ast.Attribute) and isinstance(c.func.value, ast.Name) and \
                    c.func.value.id == "self":
                m = prog.lookup_method(cls, c.func.attr)
                if m is not None and m.cls is cls:
                    todo.append(m)
    for f in reach.values():
        fg = FuncGuards(prog, f)
        tainted = _tainted_names(f, prog)
        for c in calls_in(f.node):
            if not (isinstance(c.func, ast.Attribute) and c.func.attr in PARTIAL and c.args):
                continue
            arg = c.args[0]
            names = {x.id for x in ast.walk(arg) if isinstance(x, ast.Name)}
            if not (names & tainted):
                continue
            atoms = fg.atoms(c)
            con = norm_src(c)
            inst = (f.qualname, con)
            argt = unparse(arg)
            guarded = any(
                (a[0] == "truthy" and "has_task(%s)" % argt in a[1])
                or (a[0] == "in" and a[1] == argt and a[2] in (("src", "self"),))
                for a in atoms)
            if guarded:
                res.holds(inst)
            elif con in reviewed:
                res.holds(inst, "reviewed: " + reviewed[con]["reason"])
            else:
                res.violated(inst, Finding(
                    "U1", f.file, f.qualname, con,
                    "%s is a task name read from a transition and may be undefined; %s raises "
                    "KeyError for it, so inspect() crashes instead of reporting the undefined "
                    "task (guards: %s)" % (argt, c.func.attr, fmt_atoms(atoms)), line=c.lineno))
    return res


# work-list idioms: queue.Queue (put/get), collections.deque and plain lists (append/pop..)
QUEUE_PUT = ("put", "put_nowait", "append", "appendleft")
QUEUE_TAKE = ("get", "get_nowait", "popleft", "pop")


def _tainted_names(f, prog=None):
    """Locals that may hold a task name read from a transition's 'do' (directly, through
    get_next_tasks() results, tuple elements or the first component of queue entries).  Taint
    flows through plain copies, subscripts, tuple displays and the split/strip idiom only."""
    t = set()
    queue_tainted = {}  # queue name -> set of tainted component positions (None = whole item)

    def carries(v):
        if isinstance(v, ast.Name):
            return v.id in t
        if isinstance(v, ast.Subscript):
            return carries(v.value)
        if isinstance(v, (ast.Tuple, ast.List)):
            return any(carries(e) for e in v.elts)
        if isinstance(v, ast.BoolOp):
            return any(carries(e) for e in v.values)
        if isinstance(v, ast.Call):
            src = unparse(v)
            if callee_name(v) == "get_next_tasks":
                return True
            if isinstance(v.func, ast.Name) and v.func.id == "getattr" and "'do'" in src.replace(
                    '"', "'"):
                return True
            if callee_name(v) in ("strip", "split") and isinstance(v.func, ast.Attribute):
                return carries(v.func.value)
            return False
        if isinstance(v, ast.ListComp):
            return any(carries(g.iter) for g in v.generators)
        return False

    for _ in range(5):
        for n in ast.walk(f.node):
            if isinstance(n, (ast.For, ast.comprehension)):
                if isinstance(n.iter, ast.Name) and n.iter.id in queue_tainted:
                    pos = queue_tainted[n.iter.id]
                    if isinstance(n.target, ast.Name):
                        t.add(n.target.id)
                    elif isinstance(n.target, ast.Tuple):
                        for i, e in enumerate(n.target.elts):
                            if isinstance(e, ast.Name) and (i in pos or None in pos):
                                t.add(e.id)
                if carries(n.iter):
                    for x in ast.walk(n.target):
                        if isinstance(x, ast.Name):
                            t.add(x.id)
            if isinstance(n, ast.Assign):
                v = n.value
                from_queue = isinstance(v, ast.Call) and callee_name(v) in QUEUE_TAKE and isinstance(
                    v.func, ast.Attribute) and isinstance(v.func.value, ast.Name) and \
                    v.func.value.id in queue_tainted
                if from_queue:
                    pos = queue_tainted[v.func.value.id]
                    for tg in n.targets:
                        if isinstance(tg, ast.Name):
                            t.add(tg.id)
                        elif isinstance(tg, ast.Tuple):
                            for i, e in enumerate(tg.elts):
                                if isinstance(e, ast.Name) and (i in pos or None in pos):
                                    t.add(e.id)
                elif carries(v):
                    for tg in n.targets:
                        for x in ast.walk(tg):
                            if isinstance(x, ast.Name):
                                t.add(x.id)
            if isinstance(n, ast.Call) and callee_name(n) in QUEUE_PUT and isinstance(
                    n.func, ast.Attribute) and isinstance(n.func.value, ast.Name) and n.args:
                a0 = n.args[0]
                comps = list(enumerate(a0.elts)) if isinstance(a0, ast.Tuple) else [(None, a0)]
                for i, comp in comps:
                    if not isinstance(comp, (ast.Name, ast.Subscript)):
                        continue
                    hot = [x.id for x in ast.walk(comp) if isinstance(x, ast.Name) and x.id in t]
                    if hot and prog is not None:
                        atoms = FuncGuards(prog, f).atoms(n)
                        hot = [h for h in hot if not any(
                            (a[0] == "truthy" and "has_task(%s)" % h in a[1])
                            or (a[0] == "in" and a[1] == h and a[2] == ("src", "self"))
                            for a in atoms)]
                    if hot:
                        queue_tainted.setdefault(n.func.value.id, set()).add(i)
    return t - set(f.params)

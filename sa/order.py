"""E8 - order-taint analysis: rules N1 (hash order does not reach outputs) and N2 (declaration
order does not reach the composed graph).

Taints: 'S' a set object (iteration order depends on the hash seed), 'U' a sequence whose
element order came from a set, 'D' a dict whose key order came from a set, ('T', (...)) a
tuple with per-position taints.  Taint flows through list()/+/slices/assignment, through
constant-key fields (by key name), through returns and arguments (by function name).
Order-insensitive consumers clear it (set(), len, in, any/all, sum, min/max, sorted with a
total key, ==/!= between sets, issubset ...).  Order-sensitive uses are findings: indexing,
sorted with a key that does not determine the element, formatting, list equality, queue puts /
graph mutation / returns driven by iteration over it, and returning it from an API root.
"""

import ast

from sa.core import AnalysisError, norm_src, unparse
from sa.guards import callee_name, calls_in
from sa.report import Finding, RuleResult

SCOPE_PREFIXES = ("expressions", "specs", "composers", "conducting", "graphing", "machines",
                  "utils", "requests")
SET_METHODS = ("union", "intersection", "difference", "symmetric_difference", "copy")
INSENSITIVE_FUNCS = ("set", "frozenset", "len", "any", "all", "sum", "min", "max", "bool", "dict")
INSENSITIVE_METHODS = ("issubset", "issuperset", "isdisjoint", "count", "update", "add",
                       "discard", "get", "keys_view")
API_ROOTS = ("inspect", "compose", "serialize", "get_next_tasks", "extract_vars", "validate",
             "inspect_syntax", "inspect_semantics", "inspect_expressions", "get_cycles",
             "get_task_attributes", "request_workflow_rerun")


def is_u(t):
    return t in ("U", "S", "D")


class FuncOrder(object):
    def __init__(self, an, f):
        self.an = an
        self.f = f
        self.env = {}
        self.findings = []
        self.ret = None
        self.tuple_arity = {}  # list name -> arity of tuple elements appended to it

    # ------------------------------------------------------------------ helpers
    def flag(self, node, kind, msg):
        self.findings.append((self.f, node, kind, msg))

    def join(self, a, b):
        if a == b:
            return a
        if a is None:
            return b
        if b is None:
            return a
        if isinstance(a, tuple) and isinstance(b, tuple) and a[0] == b[0] == "T" and len(a[1]) == len(b[1]):
            return ("T", tuple(self.join(x, y) for x, y in zip(a[1], b[1])))
        if isinstance(a, tuple) or isinstance(b, tuple):
            return "U"
        order = {"S": 1, "D": 2, "U": 3}
        return a if order[a] >= order[b] else b

    # ------------------------------------------------------------------ expressions
    def t(self, e):
        if e is None:
            return None
        m = getattr(self, "t_" + type(e).__name__, None)
        if m is None:
            for c in ast.iter_child_nodes(e):
                if isinstance(c, ast.expr):
                    self.t(c)
            return None
        return m(e)

    def t_Constant(self, e):
        return None

    def t_Name(self, e):
        return self.env.get(e.id)

    def t_Set(self, e):
        for x in e.elts:
            self.use_value(x)
        return "S"

    def t_SetComp(self, e):
        self.comp_gens(e, sensitive=False)
        return "S"

    def t_List(self, e):
        ts = [self.t(x) for x in e.elts]
        return "U" if any(is_u(x) for x in ts if not isinstance(x, tuple)) and False else None

    def t_Tuple(self, e):
        ts = tuple(self.t(x) for x in e.elts)
        if any(x is not None for x in ts):
            return ("T", ts)
        return None

    def t_Dict(self, e):
        for k, v in zip(e.keys, e.values):
            if k is not None:
                self.t(k)
            tv = self.t(v)
            if k is not None and isinstance(k, ast.Constant) and isinstance(k.value, str) and tv is not None:
                fk = (self.f.module.short, k.value)
                self.an.field_taint[fk] = self.join(self.an.field_taint.get(fk), tv)
        return None

    def comp_gens(self, e, sensitive):
        """Bind comprehension targets; returns True when some generator iterates a tainted
        collection."""
        hot = False
        for g in e.generators:
            ti = self.t(g.iter)
            if is_u(ti):
                hot = True
            elt_t = None
            if isinstance(ti, tuple):
                elt_t = None
            self.bind(g.target, elt_t)
            for c in g.ifs:
                self.t(c)
        return hot

    def t_ListComp(self, e):
        hot = self.comp_gens(e, True)
        self.t(e.elt)
        return "U" if hot else None

    t_GeneratorExp = t_ListComp

    def t_DictComp(self, e):
        hot = self.comp_gens(e, True)
        self.t(e.key)
        self.t(e.value)
        return "D" if hot else None

    def t_BinOp(self, e):
        a, b = self.t(e.left), self.t(e.right)
        if isinstance(e.op, (ast.BitOr, ast.BitAnd, ast.Sub, ast.BitXor)) and ("S" in (a, b)):
            return "S"
        if isinstance(e.op, ast.Add):
            if is_u(a) or is_u(b):
                return "U"
            return None
        if isinstance(e.op, ast.Mod):
            for side, tt in ((e.right, b),):
                if is_u(tt) or (isinstance(tt, tuple) and any(is_u(x) for x in tt[1])):
                    self.flag(e, "format", "an unordered collection is formatted into a string")
            return None
        return None

    def t_BoolOp(self, e):
        out = None
        for v in e.values:
            out = self.join(out, self.t(v))
        return out

    def t_IfExp(self, e):
        self.t(e.test)
        return self.join(self.t(e.body), self.t(e.orelse))

    def t_UnaryOp(self, e):
        self.t(e.operand)
        return None

    def t_Compare(self, e):
        ts = [self.t(e.left)] + [self.t(c) for c in e.comparators]
        for op, a, b, na, nb in zip(e.ops, ts, ts[1:], [e.left] + e.comparators, e.comparators):
            if isinstance(op, (ast.Eq, ast.NotEq)):
                if (a == "U" and b != "S") or (b == "U" and a != "S"):
                    # list equality is order sensitive (set == set is not)
                    if not (self._is_empty(na) or self._is_empty(nb)):
                        self.flag(e, "list-eq", "a sequence in hash order is compared for equality")
        return None

    def _is_empty(self, n):
        return isinstance(n, (ast.List, ast.Tuple)) and not n.elts or (
            isinstance(n, ast.Constant) and n.value is None)

    def t_Subscript(self, e):
        tb = self.t(e.value)
        self.t(e.slice)
        if isinstance(e.slice, ast.Slice):
            return "U" if is_u(tb) else None
        if isinstance(tb, tuple) and isinstance(e.slice, ast.Constant) and isinstance(e.slice.value, int):
            i = e.slice.value
            if 0 <= i < len(tb[1]):
                return tb[1][i]
            return None
        if tb == "U":
            self.flag(e, "index", "element %s of a sequence in hash order is selected" % unparse(e.slice))
            return None
        if isinstance(e.slice, ast.Constant) and isinstance(e.slice.value, str):
            return self.an.field_taint.get((self.f.module.short, e.slice.value))
        return None

    def t_Attribute(self, e):
        self.t(e.value)
        return None

    def t_Lambda(self, e):
        return None

    def t_JoinedStr(self, e):
        for v in e.values:
            if isinstance(v, ast.FormattedValue) and is_u(self.t(v.value)):
                self.flag(e, "format", "an unordered collection is formatted into a string")
        return None

    def t_Starred(self, e):
        return self.t(e.value)

    def use_value(self, e):
        return self.t(e)

    def t_Call(self, e):
        fn = e.func
        name = callee_name(e)
        args_t = [self.t(a) for a in e.args]
        kw_t = {k.arg: self.t(k.value) for k in e.keywords}
        a0 = args_t[0] if args_t else None
        if isinstance(fn, ast.Name):
            if name in ("set", "frozenset"):
                return "S"
            if name in ("list", "tuple", "iter", "reversed"):
                return "U" if is_u(a0) else None
            if name == "sorted":
                if not is_u(a0):
                    return None
                key = {k.arg: k.value for k in e.keywords}.get("key")
                if key is None:
                    return None
                if self.key_is_total(key, e.args[0]):
                    return None
                self.flag(e, "partial-sort",
                          "a collection in hash order is sorted with key %s, which does not "
                          "determine the element: ties keep the hash order" % unparse(key))
                return "U"
            if name in INSENSITIVE_FUNCS:
                if name == "dict" and is_u(a0):
                    return "D"
                return None
            if name in ("enumerate", "zip", "filter", "map"):
                return "U" if any(is_u(x) for x in args_t) else None
            if name in ("str", "repr") and is_u(a0):
                self.flag(e, "format", "an unordered collection is converted to a string")
                return None
            if name == "getattr":
                return None
            # repository function called by bare name
            return self.call_repo(name, e, args_t, kw_t)
        if isinstance(fn, ast.Attribute):
            recv_t = self.t(fn.value)
            if name in SET_METHODS and recv_t == "S":
                return "S"
            if name in ("keys", "values", "items") and recv_t == "D":
                return "U"
            if name == "join" and is_u(a0):
                self.flag(e, "format", "a sequence in hash order is joined into a string")
                return None
            if name in ("append", "extend", "insert") and isinstance(fn.value, ast.Name):
                val = args_t[-1] if args_t else None
                lst = fn.value.id
                if name == "append" and e.args and isinstance(e.args[0], ast.Tuple):
                    self.tuple_arity[lst] = max(self.tuple_arity.get(lst, 0), len(e.args[0].elts))
                if is_u(val) and name == "extend":
                    self.env[lst] = "U"
                elif self.loop_hot:
                    dep = self._depends_on_loopvars(e.args[-1]) if e.args else False
                    if dep:
                        self.env[lst] = "U"
                return None
            if name == "put" and self.loop_hot and e.args and self._depends_on_loopvars(e.args[0]):
                self.flag(e, "queue", "queue entries are put while iterating a collection in hash "
                                      "order: traversal order depends on the hash seed")
                return None
            if name == "pop" and recv_t == "S":
                self.flag(e, "set-pop", "set.pop() returns an arbitrary element")
                return None
            if name in INSENSITIVE_METHODS:
                return None
            return self.call_repo(name, e, args_t, kw_t)
        return None

    def call_repo(self, name, e, args_t, kw_t):
        an = self.an
        if name in an.funcs_by_name:
            for i, tt in enumerate(args_t):
                if tt is not None:
                    for f in an.funcs_by_name[name]:
                        params = f.params[1:] if (f.cls is not None and f.outer is None
                                                  and not f.is_staticmethod) else f.params
                        if i < len(params):
                            k = (f.qualname, params[i])
                            nt = self.join(an.param_taint.get(k), tt)
                            if nt != an.param_taint.get(k):
                                an.param_taint[k] = nt
                                an.changed = True
            for kname, tt in kw_t.items():
                if tt is not None:
                    for f in an.funcs_by_name[name]:
                        k = (f.qualname, kname)
                        nt = self.join(an.param_taint.get(k), tt)
                        if nt != an.param_taint.get(k):
                            an.param_taint[k] = nt
                            an.changed = True
            out = None
            for f in an.funcs_by_name[name]:
                out = self.join(out, an.ret_taint.get(f.qualname))
            return out
        return None

    def key_is_total(self, key, src):
        """The sort key determines the element (ties impossible between distinct elements)."""
        ig = self._itemgetter(key)
        if ig is not None:
            return self._key_body_total(ig[0], ig[1], src)
        if isinstance(key, ast.Name):
            # a named key function of the same module that only returns an expression
            fi = self.f.module.functions.get(key.id)
            stmts = [b for b in fi.node.body if not (isinstance(b, ast.Expr) and isinstance(
                b.value, ast.Constant))] if fi is not None else []
            if len(stmts) != 1 or not isinstance(stmts[0], ast.Return) or \
                    stmts[0].value is None or len(fi.node.args.args) != 1:
                return False
            p, body = fi.node.args.args[0].arg, stmts[0].value
        elif isinstance(key, ast.Lambda) and len(key.args.args) == 1:
            p, body = key.args.args[0].arg, key.body
        else:
            return False
        return self._key_body_total(p, body, src)

    def _itemgetter(self, key):
        """operator.itemgetter(i, j, ...) written in place or bound once at module level:
        the equivalent lambda body, else None."""
        if isinstance(key, ast.Name) and self.f.module.functions.get(key.id) is None:
            ds = [n for n in self.f.module.tree.body if isinstance(n, ast.Assign) and any(
                isinstance(t, ast.Name) and t.id == key.id for t in n.targets)]
            if len(ds) != 1:
                return None
            key = ds[0].value
        if isinstance(key, ast.Lambda) and len(key.args.args) == 1:
            return key.args.args[0].arg, key.body
        if isinstance(key, ast.Call) and unparse(key.func) in ("operator.itemgetter", "itemgetter") \
                and key.args and not key.keywords and all(
                    isinstance(a, ast.Constant) and isinstance(a.value, int) for a in key.args):
            elts = [ast.Subscript(value=ast.Name(id="_x", ctx=ast.Load()),
                                  slice=ast.Constant(value=a.value), ctx=ast.Load())
                    for a in key.args]
            return "_x", (elts[0] if len(elts) == 1 else ast.Tuple(elts=elts, ctx=ast.Load()))
        return None

    def _arity_of(self, src):
        """Arity of the tuples held by the collection expression `src`: of a list that tuple
        displays are appended to, also through update / extend / set() / list() / copies."""
        known = dict(self.tuple_arity)
        for _ in range(4):
            for n in ast.walk(self.f.node):
                tgt = val = None
                if isinstance(n, ast.Call) and isinstance(n.func, ast.Attribute) and \
                        n.func.attr in ("update", "extend") and isinstance(
                            n.func.value, ast.Name) and len(n.args) == 1:
                    tgt, val = n.func.value.id, n.args[0]
                elif isinstance(n, ast.Call) and isinstance(n.func, ast.Attribute) and \
                        n.func.attr in ("add", "append") and isinstance(
                            n.func.value, ast.Name) and len(n.args) == 1 and isinstance(
                            n.args[0], ast.Tuple):
                    known[n.func.value.id] = max(known.get(n.func.value.id, 0), len(n.args[0].elts))
                elif isinstance(n, ast.Assign) and len(n.targets) == 1 and isinstance(
                        n.targets[0], ast.Name):
                    tgt, val = n.targets[0].id, n.value
                elif isinstance(n, ast.AugAssign) and isinstance(n.target, ast.Name):
                    tgt, val = n.target.id, n.value
                if tgt is None:
                    continue
                while isinstance(val, ast.Call) and isinstance(val.func, ast.Name) and \
                        val.func.id in ("set", "list", "tuple", "sorted", "frozenset") and val.args:
                    val = val.args[0]
                if isinstance(val, ast.Name) and val.id in known:
                    known[tgt] = max(known.get(tgt, 0), known[val.id])
        for n in ast.walk(src):
            if isinstance(n, ast.Name) and n.id in known:
                return known[n.id]
        return None

    def _key_body_total(self, p, body, src):
        if isinstance(body, ast.Name) and body.id == p:
            return True
        arity = self._arity_of(src)
        if arity is None:
            return False
        idx = set()
        comps = body.elts if isinstance(body, ast.Tuple) else [body]
        for c in comps:
            if isinstance(c, ast.Subscript) and isinstance(c.value, ast.Name) and c.value.id == p \
                    and isinstance(c.slice, ast.Constant) and isinstance(c.slice.value, int):
                idx.add(c.slice.value)
        return idx >= set(range(arity))

    # ------------------------------------------------------------------ statements
    loop_hot = False
    loop_vars = ()

    def _depends_on_loopvars(self, e):
        names = {x.id for x in ast.walk(e) if isinstance(x, ast.Name)}
        return bool(names & set(self.loop_vars))

    def bind(self, target, tt):
        if isinstance(target, ast.Name):
            if tt is None:
                self.env.pop(target.id, None)
            else:
                self.env[target.id] = tt
        elif isinstance(target, (ast.Tuple, ast.List)):
            for i, x in enumerate(target.elts):
                sub = None
                if isinstance(tt, tuple) and i < len(tt[1]):
                    sub = tt[1][i]
                self.bind(x, sub)
        elif isinstance(target, ast.Subscript):
            self.t(target.value)
            if isinstance(target.slice, ast.Constant) and isinstance(target.slice.value, str):
                k = (self.f.module.short, target.slice.value)
                if tt is not None:
                    nt = self.join(self.an.field_taint.get(k), tt)
                    if nt != self.an.field_taint.get(k):
                        self.an.field_taint[k] = nt
                        self.an.changed = True
            elif self.loop_hot and self._depends_on_loopvars(target.slice) and isinstance(
                    target.value, ast.Name):
                # d[x] = ... while iterating in hash order: key order of d is unordered
                self.env[target.value.id] = self.join(self.env.get(target.value.id), "D")
        elif isinstance(target, ast.Attribute):
            self.t(target.value)

    def block(self, stmts):
        for s in stmts:
            self.stmt(s)

    def stmt(self, s):
        if isinstance(s, ast.Assign):
            tt = self.t(s.value)
            for tg in s.targets:
                self.bind(tg, tt)
        elif isinstance(s, ast.AugAssign):
            tt = self.t(s.value)
            if isinstance(s.target, ast.Name) and is_u(tt):
                self.env[s.target.id] = "U"
        elif isinstance(s, ast.Expr):
            self.t(s.value)
        elif isinstance(s, ast.Return):
            if s.value is not None:
                tt = self.t(s.value)
                if self.loop_hot and self._depends_on_loopvars(s.value) and not isinstance(
                        s.value, ast.Constant):
                    self.flag(s, "return-in-loop", "a value chosen while iterating in hash order is "
                                                   "returned")
                self.ret = self.join(self.ret, tt)
        elif isinstance(s, ast.If):
            self.t(s.test)
            e0 = dict(self.env)
            # isinstance(x, set / frozenset / (.., set, ..)): in the body x is a collection in
            # hash order, wherever it came from (a run-time value of an expression)
            tst = s.test
            if isinstance(tst, ast.Call) and isinstance(tst.func, ast.Name) and \
                    tst.func.id == "isinstance" and len(tst.args) == 2 and isinstance(
                        tst.args[0], ast.Name):
                tys = tst.args[1].elts if isinstance(tst.args[1], (ast.Tuple, ast.List)) \
                    else [tst.args[1]]
                if any(isinstance(t_, ast.Name) and t_.id in ("set", "frozenset") for t_ in tys):
                    self.env[tst.args[0].id] = "S"
                    self.an.n_sources = getattr(self.an, "n_sources", 0)
            self.block(s.body)
            e1 = self.env
            self.env = dict(e0)
            self.block(s.orelse)
            for k in set(e1) | set(self.env):
                self.env[k] = self.join(e1.get(k), self.env.get(k))
        elif isinstance(s, (ast.For, ast.AsyncFor)):
            ti = self.t(s.iter)
            hot = is_u(ti)
            saved = (self.loop_hot, self.loop_vars)
            lv = [x.id for x in ast.walk(s.target) if isinstance(x, ast.Name)]
            if hot:
                self.loop_hot = True
                # locals computed from the loop variables inside the body depend on them too
                dep = set(lv)
                for _ in range(3):
                    for a_ in ast.walk(s):
                        if isinstance(a_, ast.Assign) and any(
                                isinstance(x, ast.Name) and x.id in dep for x in ast.walk(a_.value)):
                            for t_ in a_.targets:
                                dep |= {x.id for x in ast.walk(t_) if isinstance(x, ast.Name)
                                        and isinstance(x.ctx, ast.Store)}
                lv = sorted(dep)
                self.loop_vars = tuple(self.loop_vars) + tuple(lv)
                if self.an.is_state_write_loop(self.f, s):
                    self.flag(s, "ordered-effect", "persistent state / the graph is written while "
                                                   "iterating a collection in hash order")
            for _ in range(2):
                self.bind(s.target, None)
                self.block(s.body)
            # locals assigned from loop variables inside a hot loop are loop-dependent too
            self.loop_hot, self.loop_vars = saved
            self.block(s.orelse)
        elif isinstance(s, ast.While):
            for _ in range(2):
                self.t(s.test)
                self.block(s.body)
        elif isinstance(s, ast.Try):
            self.block(s.body)
            for h in s.handlers:
                self.block(h.body)
            self.block(s.orelse)
            self.block(s.finalbody)
        elif isinstance(s, ast.With):
            for it in s.items:
                self.t(it.context_expr)
            self.block(s.body)
        elif isinstance(s, ast.Raise):
            if s.exc is not None:
                self.t(s.exc)
        elif isinstance(s, (ast.FunctionDef, ast.AsyncFunctionDef)):
            pass

    def run(self):
        f = self.f
        for p in f.params:
            tt = self.an.param_taint.get((f.qualname, p))
            if tt is not None:
                self.env[p] = tt
        # extend loop-variable dependence through plain local copies inside loops
        self.block(f.node.body)
        return self


class OrderAnalysis(object):
    def __init__(self, prog, source="hash"):
        self.prog = prog
        self.funcs = [f for f in prog.all_functions()
                      if f.module.short.split(".")[0] in SCOPE_PREFIXES and f.outer is None]
        self.nested = [f for f in prog.nested_functions
                       if f.module.short.split(".")[0] in SCOPE_PREFIXES]
        self.funcs_by_name = {}
        for f in self.funcs + self.nested:
            self.funcs_by_name.setdefault(f.name, []).append(f)
        self.ret_taint = {}
        self.param_taint = {}
        self.field_taint = {}
        self.changed = False
        self.findings = []
        self.sources = []

    def is_state_write_loop(self, f, loop):
        for c in calls_in(loop):
            n = callee_name(c)
            if n in ("add_task", "add_transition", "update_task", "update_transition",
                     "set_barrier", "add_staged_task", "add_task_state", "log_entry", "log_error"):
                return True
        return False

    def run(self):
        for rnd in range(8):
            self.changed = False
            allf = []
            for f in self.funcs + self.nested:
                fo = FuncOrder(self, f).run()
                allf.append(fo)
                if fo.ret != self.ret_taint.get(f.qualname):
                    self.ret_taint[f.qualname] = fo.join(self.ret_taint.get(f.qualname), fo.ret)
                    self.changed = True
            if not self.changed:
                break
        seen = set()
        self.findings = []
        for fo in allf:
            for f, node, kind, msg in fo.findings:
                k = (f.qualname, id(node), kind)
                if k not in seen:
                    seen.add(k)
                    self.findings.append((f, node, kind, msg))
        # API roots returning hash order
        callers = set()
        for f in self.funcs + self.nested:
            for c in calls_in(f.node):
                callers.add(callee_name(c))
        for f in self.funcs:
            tt = self.ret_taint.get(f.qualname)
            bad = is_u(tt) or (isinstance(tt, tuple) and any(is_u(x) for x in tt[1]))
            if bad and (f.name in API_ROOTS or f.name not in callers) and not f.name.startswith("_"):
                self.findings.append((f, f.node, "api-return",
                                      "%s returns a collection in hash order" % f.qualname))
        for f in self.funcs + self.nested:
            for n in ast.walk(f.node):
                if isinstance(n, (ast.Set, ast.SetComp)) or (
                        isinstance(n, ast.Call) and isinstance(n.func, ast.Name)
                        and n.func.id in ("set", "frozenset")):
                    self.sources.append((f, n))
        return self


def rule_N1(ctx):
    res = RuleResult("N1", "hash order does not reach outputs: every collection derived from a "
                           "set reaches only order-insensitive consumers or a total sort")
    an = ctx.get("order_hash", lambda: OrderAnalysis(ctx.prog).run())
    res.facts["set_sources"] = len(an.sources)
    res.facts["unordered_fields"] = sorted("%s:%s" % k for k in an.field_taint)
    res.facts["functions_returning_unordered"] = sorted(
        q for q, t_ in an.ret_taint.items() if t_ is not None)
    flagged = {}
    for f, node, kind, msg in an.findings:
        flagged.setdefault((f.qualname, kind, norm_src(node) if not isinstance(
            node, ast.FunctionDef) else "def " + f.name), (f, node, msg))
    for (q, kind, con), (f, node, msg) in sorted(flagged.items()):
        res.violated((q, kind, con), Finding(
            "N1", f.file, q, "%s: %s" % (kind, con), msg, line=getattr(node, "lineno", None)))
    for f, n in an.sources:
        inst = ("source", f.qualname, norm_src(n), n.lineno)
        res.holds(inst)
    # the offers themselves are returned in a total order over staged entries
    g = ctx.prog.find_function("conducting.WorkflowConductor.get_next_tasks")
    if g is None:
        raise AnalysisError("get_next_tasks vanished")
    for r in ast.walk(g.node):
        if isinstance(r, ast.Return) and r.value is not None and not (
                isinstance(r.value, (ast.List, ast.Tuple)) and not r.value.elts) and not (
                isinstance(r.value, ast.Name)):
            inst = ("offer order", norm_src(r))
            v = r.value
            key = None
            if isinstance(v, ast.Call) and isinstance(v.func, ast.Name) and v.func.id == "sorted":
                key = {k.arg: k.value for k in v.keywords}.get("key")
            kt = unparse(key).replace('"', "'") if key is not None else ""
            if key is not None and "['id']" in kt and "['route']" in kt:
                res.holds(inst, "sorted by (id, route), unique per staged entry")
            else:
                res.violated(inst, Finding(
                    "N1", g.file, g.qualname, "offer order: " + norm_src(r),
                    "get_next_tasks does not return the offers sorted by (id, route): the order "
                    "of offered tasks follows the staging order", line=r.lineno))
    return res


# ====================================================================== N2
def rule_N2(ctx):
    res = RuleResult("N2", "the composed graph does not depend on the declaration order of "
                           "tasks: what the composer consumes is sorted by task name or is "
                           "order-insensitive")
    prog = ctx.prog
    comp = prog.find_function("composers.native.WorkflowComposer._compose_wf_graph")
    tms = prog.cls("specs.native.v1.models.TaskMappingSpec")
    if comp is None:
        raise AnalysisError("composer vanished")
    used = set()
    for c in calls_in(comp.node):
        if isinstance(c.func, ast.Attribute) and "tasks" in unparse(c.func.value):
            used.add(c.func.attr)
    # transitive closure over self.method calls inside TaskMappingSpec
    todo = list(used)
    seen = set()
    while todo:
        n = todo.pop()
        if n in seen:
            continue
        seen.add(n)
        m = prog.lookup_method(tms, n)
        if m is None or m.cls is not tms:
            continue
        for c in calls_in(m.node):
            if isinstance(c.func, ast.Attribute) and isinstance(c.func.value, ast.Name) and \
                    c.func.value.id == "self":
                todo.append(c.func.attr)
    res.facts["composer_uses"] = sorted(used)
    MAPPING = ("self.items()", "self.keys()", "self.values()", "self", "self.iteritems()",
               "self.spec", "self.spec.items()", "self.spec.keys()")

    def _iterates_mapping(m_):
        return any(isinstance(x, (ast.For, ast.comprehension)) and unparse(x.iter) in MAPPING
                   for x in ast.walk(m_.node))
    # private helpers that walk the mapping (an index built once, say) hand declaration order
    # on to their callers: the callers are judged, not the helper
    ordered_helpers = set()
    for n in sorted(seen):
        m = prog.lookup_method(tms, n)
        if m is not None and m.cls is tms and n.startswith("_") and not n.startswith("__") \
                and n not in used and _iterates_mapping(m):
            ordered_helpers.add(n)
    for n in sorted(seen):
        m = prog.lookup_method(tms, n)
        if m is None or m.cls is not tms:
            continue
        if n in ordered_helpers:
            res.holds(("TaskMappingSpec." + n,), "private helper: judged where its result is used")
            continue
        iterates = _iterates_mapping(m) or any(
            isinstance(c.func, ast.Attribute) and isinstance(c.func.value, ast.Name)
            and c.func.value.id == "self" and c.func.attr in ordered_helpers
            for c in calls_in(m.node))
        inst = ("TaskMappingSpec." + n,)
        if not iterates:
            res.holds(inst, "does not iterate the task mapping")
            continue
        ok = True
        why = ""
        for r in ast.walk(m.node):
            if isinstance(r, ast.Return) and r.value is not None:
                v = r.value
                if isinstance(v, ast.Constant) or isinstance(v, (ast.Compare, ast.BoolOp, ast.UnaryOp)):
                    continue
                if isinstance(v, ast.Call) and isinstance(v.func, ast.Name) and v.func.id in (
                        "len", "bool", "any", "all"):
                    continue
                if isinstance(v, ast.Call) and isinstance(v.func, ast.Name) and v.func.id == "sorted":
                    key = {k.arg: k.value for k in v.keywords}.get("key")
                    if key is None or (isinstance(key, ast.Lambda) and "[0]" in unparse(key.body)):
                        continue
                    if isinstance(key, ast.Name):
                        # a named key function of the module that returns element 0
                        kf = m.module.functions.get(key.id)
                        body_ = [b for b in kf.node.body if not (isinstance(b, ast.Expr) and isinstance(
                            b.value, ast.Constant))] if kf is not None else []
                        if len(body_) == 1 and isinstance(body_[0], ast.Return) and \
                                body_[0].value is not None and unparse(body_[0].value).endswith("[0]"):
                            continue
                    if isinstance(key, ast.Call) and unparse(key.func) in (
                            "operator.itemgetter", "itemgetter") and key.args and isinstance(
                                key.args[0], ast.Constant) and key.args[0].value == 0:
                        continue
                    ok, why = False, "sorted by %s, which is not the task name" % unparse(key)
                    continue
                ok, why = False, "returns %s in declaration order" % norm_src(v)
        if ok:
            res.holds(inst, "iterates the mapping, returns a name-sorted / order-insensitive value")
        else:
            res.violated(inst, Finding(
                "N2", m.file, m.qualname, "return of %s" % n,
                "%s iterates the task mapping in declaration order and %s; the composer uses it, "
                "so the graph depends on the order tasks are declared" % (n, why),
                line=m.node.lineno))
    # the composer itself iterates only sorted API results or its own queue
    for x in ast.walk(comp.node):
        if isinstance(x, ast.For):
            it = x.iter
            inst = ("composer loop", norm_src(x))
            src = it
            if isinstance(it, ast.Name):
                ds = [d for d in ast.walk(comp.node) if isinstance(d, ast.Assign) and any(
                    isinstance(t_, ast.Name) and t_.id == it.id for t_ in d.targets)]
                src = ds[-1].value if ds else it
            if isinstance(src, ast.Call) and callee_name(src) in ("get_start_tasks", "get_next_tasks"):
                res.holds(inst)
            elif isinstance(src, ast.Call) and callee_name(src) in ("items", "keys", "values"):
                res.violated(inst, Finding(
                    "N2", comp.file, comp.qualname, norm_src(x),
                    "the composer iterates %s directly (declaration / hash order)" % unparse(src),
                    line=x.lineno))
            else:
                res.holds(inst, "iterates %s" % unparse(src))
    # graph serialisation keeps parallel edges distinguishable
    g = prog.find_function("graphing.WorkflowGraph.deserialize")
    if g is not None:
        txt = unparse(g.node)
        if "multigraph=True" in txt and "directed=True" in txt:
            res.holds(("graph deserialize", "multigraph, directed"))
        else:
            res.violated(("graph deserialize",), Finding(
                "N2", g.file, g.qualname, "adjacency_graph arguments",
                "the graph is not restored as a directed multigraph: parallel edges collapse",
                line=g.node.lineno))
    return res

"""Path / provenance rules P1-P6 (C01, C13, C07): guard sets, orderings and value origins in
get_next_tasks / update_task_state, computed from the AST with sa.guards."""

import ast

from sa.core import AnalysisError, NotFoldable, norm_src, unparse, untag
from sa.effects import effects_of, expand_alternatives, local_def, status_set
from sa.guards import (FuncGuards, callee_name, calls_in, fmt_atoms, terminates,
                       textually_before)
from sa.report import Finding, RuleResult

GNT = "conducting.WorkflowConductor.get_next_tasks"
UTS = "conducting.WorkflowConductor.update_task_state"


def _f(rule, f, node, construct, msg):
    return Finding(rule, f.file, f.qualname, construct, msg, line=getattr(node, "lineno", None))


def _defs(f, name):
    return [d for d in local_def(f.node, name) if isinstance(d, ast.Assign)]


def _names(node):
    return {x.id for x in ast.walk(node) if isinstance(x, ast.Name)}


# ====================================================================== P1
def _staged_filter_ok(prog):
    """WorkflowState.get_staged_tasks(filtered=True) returns entries that are ready and not
    completed.  Returns (ok, detail)."""
    f = prog.function("conducting.WorkflowState.get_staged_tasks")
    fg = FuncGuards(prog, f)
    rets = [n for n in ast.walk(f.node) if isinstance(n, ast.Return) and n.value is not None]
    filt = [r for r in rets if isinstance(r.value, ast.ListComp)]
    unf = [r for r in rets if not isinstance(r.value, ast.ListComp)]
    if len(filt) != 1:
        return False, "no single filtered return", f
    # the unfiltered return must be under the 'not filtered' guard
    for r in unf:
        atoms = fg.atoms(r)
        if not any(a[0] == "falsy" and a[1] in f.params for a in atoms):
            return False, "unfiltered return is not guarded by the filter flag", f
    comp = filt[0].value
    if len(comp.generators) != 1 or not isinstance(comp.elt, ast.Name):
        return False, "filtered return is not a plain filter comprehension", f
    g = comp.generators[0]
    var = g.target.id if isinstance(g.target, ast.Name) else None
    if comp.elt.id != var or unparse(g.iter) not in ("self.staged",):
        return False, "filtered return does not filter self.staged", f
    atoms = []
    for c in g.ifs:
        atoms.extend(fg.norm.conj(c, True))
    ready = any(a[0] == "truthy" and a[1].replace('"', "'") == "%s['ready']" % var for a in atoms)
    notdone = any(a[0] == "falsy" and "completed" in a[1] for a in atoms)
    if not ready:
        return False, "filter does not require the ready flag", f
    if not notdone:
        return False, "filter does not exclude completed (failed with-items) entries", f
    # default of the flag must be 'filtered'
    dflt = f.node.args.defaults
    if not dflt or not (isinstance(dflt[-1], ast.Constant) and dflt[-1].value is True):
        return False, "filter flag does not default to True", f
    return True, "ready and not completed", f


def _is_filtered_staged_call(node):
    if isinstance(node, ast.Call) and callee_name(node) == "get_staged_tasks":
        if not node.args and not node.keywords:
            return True
        for k in node.keywords:
            if k.arg == "filtered" and isinstance(k.value, ast.Constant) and k.value.value is True:
                return True
        if node.args and isinstance(node.args[0], ast.Constant) and node.args[0].value is True:
            return True
    return False


def _derives_from_staged(f, expr, depth=0):
    """expr is the filtered staged list or derived from it by filtering only."""
    if depth > 6:
        return False
    if _is_filtered_staged_call(expr):
        return True
    if isinstance(expr, ast.BoolOp):
        return all(_derives_from_staged(f, v, depth + 1) for v in expr.values)
    if isinstance(expr, ast.IfExp):
        return _derives_from_staged(f, expr.body, depth + 1) and _derives_from_staged(
            f, expr.orelse, depth + 1)
    if isinstance(expr, (ast.List, ast.Tuple)) and not expr.elts:
        return True
    if isinstance(expr, ast.ListComp) and len(expr.generators) == 1:
        g = expr.generators[0]
        if isinstance(expr.elt, ast.Name) and isinstance(g.target, ast.Name) and \
                expr.elt.id == g.target.id:
            return _derives_from_staged(f, g.iter, depth + 1)
        return False
    if isinstance(expr, ast.Call) and isinstance(expr.func, ast.Name) and expr.func.id in (
            "list", "sorted") and expr.args:
        return _derives_from_staged(f, expr.args[0], depth + 1)
    if isinstance(expr, ast.Call) and isinstance(expr.func, ast.Name) and expr.func.id == "filter" \
            and len(expr.args) == 2:
        return _derives_from_staged(f, expr.args[1], depth + 1)
    if isinstance(expr, ast.Name):
        defs = _defs(f, expr.id)
        return bool(defs) and all(_derives_from_staged(f, d.value, depth + 1) for d in defs)
    return False


def _returns_param0(prog, qual):
    f = prog.find_function(qual)
    if f is None:
        return False
    p = f.params[1] if len(f.params) > 1 else None
    rets = [n for n in ast.walk(f.node) if isinstance(n, ast.Return)]
    return bool(rets) and all(isinstance(r.value, ast.Name) and r.value.id == p for r in rets)


def _root_defs(f, name):
    """Assignments defining `name`, followed through plain local copies (x = y) and the
    result/parameter temporaries introduced by helper inlining."""
    out, seen, work = [], set(), [name]
    while work:
        nm = work.pop()
        if nm in seen:
            continue
        seen.add(nm)
        for d in _defs(f, nm):
            v = d.value
            if isinstance(v, ast.IfExp):
                # x = A if t else None : provenance is that of the non-None arms
                arms = [b for b in (v.body, v.orelse)
                        if not (isinstance(b, ast.Constant) and b.value is None)]
                if arms and all(isinstance(b, ast.Name) for b in arms):
                    work.extend(b.id for b in arms)
                    continue
            if isinstance(v, ast.Name):
                work.append(v.id)
            elif nm.startswith("__ret__") and isinstance(v, ast.Constant) and v.value is None:
                continue
            else:
                out.append(d)
    return out


_COMPLEMENT = {"is": "isnot", "isnot": "is", "truthy": "falsy", "falsy": "truthy", "in": "notin",
               "notin": "in", "==": "!=", "!=": "==", "<": ">=", ">=": "<", ">": "<=", "<=": ">"}


def _complementary(a, b):
    return a[1] == b[1] and a[2] == b[2] and _COMPLEMENT.get(a[0]) == b[0]


def rule_P1(ctx):
    res = RuleResult("P1", "every offered task comes from a ready, not completed staged entry; "
                           "what the status machine calls 'work left' is what is offered")
    prog = ctx.prog
    ok, why, fs = _staged_filter_ok(prog)
    if ok:
        res.holds(("get_staged_tasks filter",), why)
    else:
        res.violated(("get_staged_tasks filter",), _f(
            "P1", fs, fs.node, "filtered return of get_staged_tasks",
            "get_staged_tasks(filtered) %s: entries that are not ready / already completed are "
            "offered or counted as pending work" % why))
    f = prog.function(GNT)
    # the returned list
    rets = [n for n in ast.walk(f.node) if isinstance(n, ast.Return) and n.value is not None]
    lists = set()
    for r in rets:
        v = r.value
        if isinstance(v, ast.Call) and isinstance(v.func, ast.Name) and v.func.id in (
                "sorted", "list") and v.args:
            v = v.args[0]
        if isinstance(v, ast.Name):
            lists.add(v.id)
        elif isinstance(v, (ast.List, ast.Tuple)) and not v.elts:
            pass
        else:
            res.violated(("return", norm_src(r)), _f(
                "P1", f, r, norm_src(r), "get_next_tasks returns a value whose provenance the "
                "rule cannot trace to staged entries"))
    appends = [c for c in calls_in(f.node) if callee_name(c) in ("append", "extend", "insert")
               and isinstance(c.func, ast.Attribute) and isinstance(c.func.value, ast.Name)
               and c.func.value.id in lists]
    if not appends:
        raise AnalysisError("get_next_tasks: no append to the returned list found")
    passthrough = _returns_param0(prog, "conducting.WorkflowConductor._evaluate_task_actions")
    for c in appends:
        inst = ("offer", norm_src(c))
        arg = c.args[-1] if c.args else None
        loop = c
        while loop is not None and not isinstance(loop, ast.For):
            loop = getattr(loop, "_parent", None)
        problem = None
        # a pipeline: the loop runs over a local list that an earlier loop filled - the offer
        # is what that loop appended, for the entry that loop was looking at
        for _hop in range(3):
            if not (isinstance(arg, ast.Name) and loop is not None and isinstance(
                    loop.target, ast.Name) and arg.id == loop.target.id
                    and isinstance(loop.iter, ast.Name)):
                break
            lst_ = loop.iter.id
            ds_ = _defs(f, lst_)
            fills = [c2 for c2 in calls_in(f.node) if callee_name(c2) == "append" and isinstance(
                c2.func, ast.Attribute) and isinstance(c2.func.value, ast.Name)
                and c2.func.value.id == lst_ and c2.args]
            if not ds_ or not all(isinstance(d.value, (ast.List, ast.Tuple)) and not d.value.elts
                                  for d in ds_) or len(fills) != 1:
                break
            arg = fills[0].args[-1]
            loop = fills[0]
            while loop is not None and not isinstance(loop, ast.For):
                loop = getattr(loop, "_parent", None)
        if not isinstance(arg, ast.Name) or loop is None or not isinstance(loop.target, ast.Name):
            problem = "offered value is not a loop-local task built from a staged entry"
        else:
            lv = loop.target.id
            defs = _root_defs(f, arg.id)
            src_ok = False
            for d in defs:
                v = d.value
                if isinstance(v, ast.Call) and callee_name(v) == "get_task" and len(v.args) == 2:
                    a0, a1 = unparse(v.args[0]).replace('"', "'"), unparse(v.args[1]).replace('"', "'")
                    if a0 == "%s['id']" % lv and a1 == "%s['route']" % lv:
                        src_ok = True
                    else:
                        problem = "task is built for %s/%s, not for the staged entry" % (a0, a1)
                elif isinstance(v, ast.Call) and callee_name(v) == "_evaluate_task_actions":
                    if not passthrough:
                        problem = "_evaluate_task_actions does not return the task it is given"
                else:
                    problem = "task is assigned from %s" % norm_src(v)
            if not src_ok and problem is None:
                problem = "task is not built by get_task(staged id, staged route)"
            if problem is None and not _derives_from_staged(f, loop.iter):
                problem = "the loop iterates %s, which is not derived (by filtering only) from " \
                          "get_staged_tasks() with the ready/not-completed filter" % unparse(loop.iter)
        if problem is None:
            res.holds(inst)
        else:
            res.violated(inst, _f("P1", f, c, norm_src(c), problem))
    # an empty with-items task (items_count == 0) is offered too - it has no action to wait
    # for, so this offer is the only thing that ever completes it - under no further condition
    gate = set()
    loops_ = [n for n in ast.walk(f.node) if isinstance(n, ast.For)]
    fg_ = FuncGuards(prog, f)
    for lp in loops_:
        gate |= set(fg_.atoms(lp))
    empties = []
    for c in appends:
        for alt in expand_alternatives(f, fg_, [a for a in fg_.atoms(c) if a not in gate]):
            atoms = [a for a in alt if a not in gate]
            if any(a[0] == "==" and a[2] == 0 and "items_count" in str(a[1]) for a in atoms):
                empties.append((c, atoms))
    if not empties:
        res.violated(("empty-items",), _f(
            "P1", f, f.node, "offer of an empty with-items task",
            "no offer is made for a with-items task whose list is empty (items_count == 0): "
            "nothing ever completes it and the workflow stays running with nothing in flight"))
    else:
        def _flat_(ats):
            for a in ats:
                if a[0] in ("or", "and"):
                    for alt in a[1]:
                        for x in _flat_(alt):
                            yield x
                else:
                    yield a
        gate_flat = set(_flat_(list(gate)))
        # the offered task itself being truthy (a rendered task is a non-empty dict) is not a
        # condition: collect the names the offered value goes by
        offered = set()
        for c, _a in empties:
            arg_ = c.args[-1] if c.args else None
            work_ = [arg_.id] if isinstance(arg_, ast.Name) else []
            while work_:
                nm_ = work_.pop()
                if nm_ in offered:
                    continue
                offered.add(nm_)
                for d_ in ast.walk(f.node):
                    if isinstance(d_, ast.Assign) and any(
                            isinstance(t_, ast.Name) and t_.id == nm_ for t_ in d_.targets):
                        for x_ in ast.walk(d_.value):
                            if isinstance(x_, ast.Name) and isinstance(d_.value, (ast.Name, ast.IfExp)):
                                work_.append(x_.id)
        gate_flat |= {("truthy", n_, None) for n_ in offered} | {("isnot", n_, None) for n_ in offered}
        ok_e = False
        worst = None
        for c, atoms in empties:
            extra = [a for a in _flat_(atoms) if a not in gate_flat and not (
                "items_count" in str(a[1]) or "actions" in str(a[1])
                or (a[0] in ("truthy", "falsy") and "has_items" in str(a[1]))
                # the item list of a task with items_count == 0 is empty (it is initialised
                # as [...] * items_count): 'no items in the staged entry' is no extra condition
                or (a[0] == "falsy" and "'items'" in str(a[1]).replace('"', "'")))]
            if not extra:
                ok_e = True
            else:
                worst = (c, extra)
        if not ok_e:
            # two alternatives that differ only by complementary conditions cover both cases
            extras = []
            for c, atoms in empties:
                extras.append([a for a in _flat_(atoms) if a not in gate_flat and not (
                    "items_count" in str(a[1]) or "actions" in str(a[1])
                    or (a[0] in ("truthy", "falsy") and "has_items" in str(a[1])))])
            for i_, x in enumerate(extras):
                for y in extras[i_ + 1:]:
                    if len(x) == 1 and len(y) == 1 and _complementary(x[0], y[0]):
                        ok_e = True
        if ok_e:
            res.holds(("empty-items",))
        else:
            res.violated(("empty-items",), _f(
                "P1", f, worst[0], "offer of an empty with-items task",
                "a with-items task whose list is empty is offered only under the further "
                "condition %s: otherwise nothing ever completes it" % fmt_atoms(worst[1])))
    # sibling agreement
    ws = prog.cls("conducting.WorkflowState")
    hs = prog.lookup_method(ws, "has_staged_tasks")
    if hs is not None:
        ok = any(_is_filtered_staged_call(c) for c in calls_in(hs.node))
        (res.holds if ok else lambda i: res.violated(i, _f(
            "P1", hs, hs.node, "has_staged_tasks", "has_staged_tasks does not count the same "
            "entries that get_next_tasks offers")))(("sibling", "has_staged_tasks"))
    hn = prog.find_function("conducting.WorkflowConductor.has_next_tasks")
    if hn is not None:
        ok = any(_is_filtered_staged_call(c) for c in calls_in(hn.node))
        (res.holds if ok else lambda i: res.violated(i, _f(
            "P1", hn, hn.node, "has_next_tasks", "has_next_tasks() without a task does not count "
            "the same entries that get_next_tasks offers")))(("sibling", "has_next_tasks"))
    return res


def _expand_bool_locals(f, fg, atoms):
    """Replace truthy/falsy atoms on a local that is defined once by a test expression with
    that test (so 'ok = status in X; if not ok and ...' reads like the inlined form)."""
    def expand(a):
        if a[0] in ("truthy", "falsy") and isinstance(a[1], str) and a[1].isidentifier():
            ds = _defs(f, a[1])
            if len(ds) == 1 and isinstance(ds[0].value, (ast.Compare, ast.BoolOp, ast.UnaryOp)):
                sub = fg.norm.conj(ds[0].value, a[0] == "truthy")
                return list(sub)
        return [a]

    out = []
    for a in atoms:
        if a[0] == "or":
            alts = []
            for alt in a[1]:
                na = []
                for x in alt:
                    na.extend(expand(x))
                alts.append(tuple(na))
            out.append(("or", tuple(alts)))
        else:
            out.extend(expand(a))
    return out


# ====================================================================== P2
def rule_P2(ctx):
    _PROG["prog"] = ctx.prog
    res = RuleResult("P2", "tasks are offered only while the workflow status is a running "
                           "status, or for run-on-fail siblings of a fail command after failure")
    prog = ctx.prog
    f = prog.function(GNT)
    fg = FuncGuards(prog, f)
    running = status_set(ctx, "RUNNING_STATUSES")
    loops = [n for n in ast.walk(f.node) if isinstance(n, ast.For)
             and any(callee_name(c) == "get_task" for c in calls_in(n))]
    if not loops:
        raise AnalysisError("get_next_tasks: rendering loop not found")
    rem_names = set()
    for lp in loops:
        atoms = _expand_bool_locals(f, fg, fg.atoms(lp))
        inst = ("gate", norm_src(lp))
        gate = None
        for a in atoms:
            if a[0] == "in" and a[2] == running:
                gate = (a, None)
            if a[0] == "or":
                alts = a[1]
                st = [x for alt in alts for x in alt if x[0] == "in" and x[2] == running]
                rem = [x for alt in alts for x in alt if x[0] == "truthy"]
                if st and len(alts) == 2 and rem:
                    gate = (st[0], rem[0][1])
        if gate is None and isinstance(lp.iter, ast.Name):
            # gate by data: the iterated list is, per branch, everything staged (only while
            # the status is a running status), the run-on-fail entries (only when failed),
            # or nothing
            ds = [n_ for n_ in ast.walk(f.node) if isinstance(n_, ast.Assign) and any(
                isinstance(t_, ast.Name) and t_.id == lp.iter.id for t_ in n_.targets)
                and not (isinstance(n_.value, ast.Constant) and n_.value.value is None)]
            bad_def = None
            kinds = set()
            cases = []
            for d in ds:
                if isinstance(d.value, ast.IfExp):
                    cases.append((d, d.value.body, list(fg.norm.conj(d.value.test, True))))
                    cases.append((d, d.value.orelse, list(fg.norm.conj(d.value.test, False))))
                else:
                    cases.append((d, d.value, []))
            for d, v, more in cases:
                datoms = _expand_bool_locals(f, fg, list(fg.atoms(d)) + more)
                if isinstance(v, (ast.List, ast.Tuple)) and not v.elts:
                    kinds.add("empty")
                    continue
                rof = isinstance(v, ast.ListComp) and any(
                    "run_on_fail" in unparse(c) for g_ in v.generators for c in g_.ifs)
                if rof and any(a[0] == "==" and a[2] == "failed" for a in datoms) \
                        and _derives_from_staged(f, v):
                    kinds.add("remediation")
                    continue
                if any(a[0] == "in" and a[2] == running for a in datoms) and \
                        _derives_from_staged(f, v):
                    kinds.add("running")
                    continue
                bad_def = d
            if ds and bad_def is None and "running" in kinds:
                res.holds(inst, "gated by the data: %s" % sorted(kinds))
                continue
        if gate is None:
            res.violated(inst, _f(
                "P2", f, lp, "offer loop gate",
                "the loop that renders offers is not guarded by 'workflow status in "
                "RUNNING_STATUSES or remediation tasks' (guards: %s)" % fmt_atoms(atoms)))
            continue
        if "get_workflow_status" not in gate[0][1] and "status" not in gate[0][1]:
            res.violated(inst, _f("P2", f, lp, "offer loop gate",
                                  "the gate does not test the workflow status: %s" % gate[0][1]))
            continue
        res.holds(inst, "status in RUNNING_STATUSES%s" % (" or %s" % gate[1] if gate[1] else ""))
        if gate[1]:
            rem_names.add(gate[1])
    # remediation list: non-empty only under status == failed, only run_on_fail entries
    for name in rem_names:
        for d in _defs(f, name):
            inst = ("remediation", norm_src(d))
            if isinstance(d.value, (ast.List, ast.Tuple)) and not d.value.elts:
                res.holds(inst, "empty")
                continue
            atoms = fg.atoms(d)
            on_failed = any(a[0] == "==" and a[2] == "failed" for a in atoms)
            v = d.value
            only_rof = isinstance(v, ast.ListComp) and any(
                "run_on_fail" in unparse(c) for g in v.generators for c in g.ifs)
            if on_failed and only_rof and _derives_from_staged(f, v):
                res.holds(inst)
            else:
                res.violated(inst, _f(
                    "P2", f, d, norm_src(d),
                    "remediation tasks are not limited to run_on_fail staged entries of a "
                    "failed workflow"))
    # run_on_fail is written only next to a fail command
    n = 0
    writes = []
    for e in effects_of(ctx):
        if e.path[-1:] == ("run_on_fail",) and e.path[:2] == ("WS", "staged"):
            n += 1
            writes.append((e,) + _classify_rof_write(ctx, prog, e))
    # a write inside the searching loop under the flag (entries visited after `fail`) and a
    # write at the fail command over the entries collected before it complement each other
    paired = {}
    for e, kind, why in writes:
        paired.setdefault(e.func.qualname, set()).add(kind)
    for e, kind, why_not in writes:
        inst = ("run_on_fail", e.func.qualname, norm_src(e.node))
        kinds = paired[e.func.qualname]
        ok = kind == "after" or (kind in ("inloop", "atfail") and {"inloop", "atfail"} <= kinds)
        if ok:
            ok2, why2 = _siblings_only(e, allow_before=(kind == "atfail"))
            if not ok2:
                res.violated(inst, _f(
                    "P2", e.func, e.node, norm_src(e.node),
                    "run_on_fail is set on entries that are not the tasks staged by the same "
                    "transition set as the fail command: %s" % why2))
                continue
            res.holds(inst, kind)
        else:
            if kind == "atfail":
                why_not = "run_on_fail is set at the fail command on the entries collected so " \
                          "far only: targets visited after `fail` are not flagged (order of " \
                          "the transitions)"
            res.violated(inst, _f("P2", e.func, e.node, norm_src(e.node), why_not))
    # the early return of the gate returns nothing
    for r in ast.walk(f.node):
        if isinstance(r, ast.Return) and r.value is not None and loops and textually_before(r, loops[0]):
            inst = ("gate-return", norm_src(r))
            v = r.value
            empty = isinstance(v, (ast.List, ast.Tuple)) and not v.elts
            if isinstance(v, ast.Name):
                ds = _defs(f, v.id)
                apps = [c for c in calls_in(f.node) if callee_name(c) in ("append", "extend")
                        and isinstance(c.func.value, ast.Name) and c.func.value.id == v.id
                        and textually_before(c, r)]
                empty = bool(ds) and all(isinstance(d.value, (ast.List, ast.Tuple)) and not d.value.elts
                                         for d in ds) and not apps
            if empty:
                res.holds(inst)
            else:
                res.violated(inst, _f("P2", f, r, norm_src(r),
                                      "the gate's early return may return tasks"))
    return res


def _fail_atom(a):
    return (a[0] == "==" and a[2] == "fail") or (
        a[0] == "in" and isinstance(a[2], (set, frozenset, tuple, list)) and set(a[2]) == {"fail"})


def _classify_rof_write(ctx, prog, e):
    """('after' | 'inloop' | 'atfail' | 'none', reason).  after: under a flag that records a
    fail command of a taken transition, outside the loop that looks for it.  inloop: same flag
    but inside that loop.  atfail: directly under `target == "fail"` of a taken transition."""
    own = [a for q, a in e.guards if q == e.func.qualname]
    flags = [a[1] for a in own if a[0] == "truthy"]
    why_not = "run_on_fail is set without a fail command in the same transition set"
    fgf = FuncGuards(prog, e.func)
    kind = "none"
    for fl in flags:
        for d in local_def(e.func.node, fl):
            if not isinstance(d, ast.Assign):
                continue
            records = _compares_with_fail(d.value) or (
                isinstance(d.value, ast.Constant) and d.value.value is True
                and any(_fail_atom(a) for a in fgf.atoms(d)))
            if not records:
                continue
            # the fail command counts only on a transition that was taken: the flag
            # is raised under this transition's criteria
            taken, _w = _criteria_guard(ctx, e.func, fgf, d, chain_guards(ctx, e.func, d))
            if not taken:
                why_not = "the fail command is looked for among all outgoing " \
                          "transitions, not among the ones whose criteria were met"
                continue
            # ... and it is only known after the whole transition set was processed:
            # setting run_on_fail inside the loop that still looks for the fail
            # command depends on the order in which the transitions are visited
            lp_ = d
            while lp_ is not None and not isinstance(lp_, ast.For):
                lp_ = getattr(lp_, "_parent", None)
            if lp_ is not None and any(e.node is x for x in ast.walk(lp_)):
                if any(_fail_atom(a) for a in own):
                    continue
                why_not = "run_on_fail is set inside the loop that is still looking " \
                          "for the fail command: only targets visited after `fail` " \
                          "are flagged (order of the transitions)"
                if kind == "none":
                    kind = "inloop"
                continue
            return "after", ""
    if kind == "none" and any(_fail_atom(a) for a in own):
        taken, _w = _criteria_guard(ctx, e.func, fgf, e.node, chain_guards(ctx, e.func, e.node))
        if taken:
            return "atfail", why_not
        why_not = "the fail command is looked for among all outgoing transitions, not among " \
                  "the ones whose criteria were met"
    return kind, why_not


# ====================================================================== P14 / F12
def _machine_call(f):
    mc = None
    for n in ast.walk(f.node):
        if isinstance(n, ast.Call) and callee_name(n) == "process_event" and \
                "TaskStateMachine" in unparse(n.func):
            mc = n
    if mc is None:
        raise AnalysisError("update_task_state does not call TaskStateMachine.process_event")
    return mc


def rule_P14(ctx):
    """A report is either rejected with an error or handed to the task machine: between the
    validation raises and TaskStateMachine.process_event there is no silent way out (early
    return, or a condition around the machine call).  The table rules quantify over the event
    sequences a task can see; a swallowed report takes the task out of those sequences (its
    next report meets a record the tables never produce)."""
    res = RuleResult("P14", "update_task_state drops no report: every path either raises or "
                            "reaches the task state machine")
    prog = ctx.prog
    f = prog.function(UTS)
    fg = FuncGuards(prog, f)
    mc = _machine_call(f)
    inst = (f.qualname, "machine call unconditional")
    extra = _atoms_wo_validation(fg, mc)
    alts = expand_alternatives(f, fg, extra) if extra else [[]]
    cond = [alt for alt in alts if alt]
    if cond and len(alts) > 1 and _complementary_alts(alts):
        cond = []
    if cond:
        res.violated(inst, _f(
            "P14", f, mc, "condition on the task machine call",
            "the report reaches the task state machine only when %s: otherwise it is dropped "
            "without an error, and the task's next report meets a record that no sequence of "
            "accepted events produces" % fmt_atoms(cond[0])))
    else:
        res.holds(inst)
    for r in ast.walk(f.node):
        if isinstance(r, ast.Return) and textually_before(r, mc):
            inst = (f.qualname, "early return", untag(norm_src(r)))
            up = r
            while up is not None and not (isinstance(up, ast.If) and isinstance(
                    getattr(up, "_parent", None), ast.FunctionDef)):
                up = getattr(up, "_parent", None)
            if up is not None and _is_precondition_exit(fg, up):
                res.holds(inst, "ignores every report alike (the test does not read the event)")
                continue
            res.violated(inst, _f(
                "P14", f, r, "return before the task machine",
                "update_task_state returns before the task state machine has seen the report "
                "(guards: %s): the report is dropped without an error, and the task's next "
                "report meets a record that no sequence of accepted events produces"
                % (", ".join(fmt_atoms(_atoms_wo_validation(fg, r))) or "none")))
    return res


def _complementary_alts(alts):
    """Two single-atom alternatives that are each other's negation."""
    if len(alts) != 2 or any(len(a) != 1 for a in alts):
        return False
    a, b = alts[0][0], alts[1][0]
    neg = {"truthy": "falsy", "falsy": "truthy", "==": "!=", "!=": "==", "in": "notin",
           "notin": "in"}
    return neg.get(a[0]) == b[0] and a[1:] == b[1:]


def rule_F12(ctx):
    """The conductor fails the workflow on its own (self.request_workflow_status) from inside
    update_task_state only as a consequence of a task completion that the task machine has
    just accepted (status changed into a completed status): never from an error handler
    around the machine, never for a report that changed nothing.  Otherwise a report that is
    rejected or redelivered after the workflow has ended changes the final status."""
    res = RuleResult("F12", "update_task_state requests a workflow status on its own only "
                            "while processing a task completion that the task machine accepted")
    prog = ctx.prog
    f = prog.function(UTS)
    fg = FuncGuards(prog, f)
    mc = _machine_call(f)
    completed = status_set(ctx, "COMPLETED_STATUSES")
    n = 0
    for c in calls_in(f.node):
        if callee_name(c) != "request_workflow_status":
            continue
        n += 1
        inst = (f.qualname, untag(norm_src(c)), n)
        why = None
        in_handler_ok = False
        # inside a handler of a try that holds the machine call
        up = c
        while up is not None and up is not f.node:
            par = getattr(up, "_parent", None)
            if isinstance(up, ast.ExceptHandler) and isinstance(par, ast.Try) and any(
                    mc is x for b in par.body for x in ast.walk(b)):
                live = any(a[0] == "notin" and isinstance(a[2], frozenset) and completed <= a[2]
                           and "status" in str(a[1]) for a in fg.atoms(c))
                if live:
                    in_handler_ok = True
                else:
                    why = "it is made in the error handler around the task state machine " \
                          "without requiring that the workflow has not ended: a report that " \
                          "the machine rejects (a duplicate, an unknown event) fails a " \
                          "workflow that may already have ended"
            up = par
        if why is None and not in_handler_ok and not textually_before(mc, c):
            why = "it is made before the task state machine has accepted the report"
        if why is None and not in_handler_ok:
            alts = expand_alternatives(f, fg, fg.atoms(c))
            for alt in alts:
                changed = any(a[0] == "!=" and isinstance(a[2], tuple) and "status" in str(a[1])
                              and "status" in str(a[2][1]) for a in alt)
                done = any(a[0] == "in" and a[2] == completed for a in alt)
                if not (changed and done):
                    why = "it does not require that the task has just completed (status " \
                          "changed into a completed status); guards: %s" % (
                              ", ".join(fmt_atoms(alt)) or "none")
                    break
        if why is None:
            res.holds(inst)
        else:
            res.violated(inst, _f(
                "F12", f, c, "self-request " + untag(norm_src(c)),
                "update_task_state requests a workflow status on its own, but %s" % why))
    if not n:
        res.holds((f.qualname, "no self-request"))
    return res


_PROG = {}


def e_prog(e):
    return _PROG["prog"]


def _compares_with_fail(v):
    """The expression records whether a transition target is the fail command:
    x == 'fail', flag or x == 'fail', x in ('fail',) ..."""
    for c in ast.walk(v):
        if isinstance(c, ast.Compare) and len(c.ops) == 1 and isinstance(
                c.ops[0], (ast.Eq, ast.In)):
            for k in [c.left] + list(c.comparators):
                if isinstance(k, ast.Constant) and k.value == "fail":
                    return True
                if isinstance(k, (ast.List, ast.Tuple, ast.Set)) and any(
                        isinstance(x, ast.Constant) and x.value == "fail" for x in k.elts):
                    return True
    return False


def _all_defs_staged(f, name, seen=None):
    """Every definition of local `name` is the result of add_staged_task / get_staged_task,
    directly or through copies of locals that are (cycles of copies are ignored)."""
    seen = seen if seen is not None else set()
    if name in seen:
        return True
    seen.add(name)
    ds = _defs(f, name)
    if not ds:
        return False
    found = False
    for d in ds:
        v = d.value
        if isinstance(v, ast.Call) and callee_name(v) in ("add_staged_task", "get_staged_task"):
            found = True
        elif isinstance(v, ast.Name):
            if v.id in seen:
                continue
            if not _all_defs_staged(f, v.id, seen):
                return False
            found = True
        else:
            return False
    return found


def _siblings_only(e, allow_before=False):
    """The entry whose run_on_fail flag is set is drawn from a local list that only ever receives
    entries staged in this activation (results of add_staged_task / get_staged_task)."""
    f = e.func
    tgt = e.node.targets[0] if isinstance(e.node, ast.Assign) else None
    if not (isinstance(tgt, ast.Subscript) and isinstance(tgt.value, ast.Name)):
        return False, "target is not a local entry"
    var = tgt.value.id
    loop = e.node
    while loop is not None and not (isinstance(loop, ast.For) and isinstance(
            loop.target, ast.Name) and loop.target.id == var):
        loop = getattr(loop, "_parent", None)
    if loop is None:
        # flag set directly on the freshly staged entry
        if _all_defs_staged(f, var):
            return True, ""
        return False, "entry %s is not one staged by this transition set" % var
    if not isinstance(loop.iter, ast.Name):
        return False, "iterates %s instead of the list of tasks staged beside the fail " \
                      "command" % unparse(loop.iter)
    lst = loop.iter.id
    ds = _defs(f, lst)
    if not ds or not all(isinstance(d.value, (ast.List, ast.Tuple)) and not d.value.elts for d in ds):
        return False, "%s is not a list collected in this activation" % lst
    apps = [c for c in calls_in(f.node) if callee_name(c) in ("append", "extend", "insert")
            and isinstance(c.func, ast.Attribute) and isinstance(c.func.value, ast.Name)
            and c.func.value.id == lst]
    if not apps:
        return False, "%s never receives an entry" % lst
    # names that record whether a fail command was seen (assigned from '== "fail"')
    flags = set()
    for n in ast.walk(f.node):
        if isinstance(n, ast.Assign) and _compares_with_fail(n.value):
            flags |= {t.id for t in n.targets if isinstance(t, ast.Name)}
    fg = FuncGuards(e_prog(e), f)
    for n in ast.walk(f.node):
        if isinstance(n, ast.Assign) and isinstance(n.value, ast.Constant) and \
                n.value.value is True and any(_fail_atom(a) for a in fg.atoms(n)):
            flags |= {t.id for t in n.targets if isinstance(t, ast.Name)}
    for c in apps:
        for a_ in fg.atoms(c):
            if allow_before and a_[0] == "falsy" and a_[1] in flags:
                continue
            if a_[0] in ("truthy", "falsy") and a_[1] in flags:
                # the flag is only final after the whole transition set was processed
                return False, "siblings are collected only %s the fail command was seen, which " \
                              "depends on the order in which the transitions are processed" % (
                                  "after" if a_[0] == "truthy" else "before")
        a = c.args[-1] if c.args else None
        if not isinstance(a, ast.Name):
            return False, "%s receives %s" % (lst, unparse(a) if a is not None else "?")
        if not _all_defs_staged(f, a.id):
            return False, "%s receives entries that were not staged here" % lst
    return True, ""


def call_sites_of(ctx, f):
    a = ctx.absint
    out = []
    for (caller, nid), callees in a.call_edges.items():
        if f.qualname in callees:
            out.append(a.call_nodes[nid])
    return out


def chain_guards(ctx, f, node, depth=0):
    """[(function, atom)] in force at node: its own guards plus, for a private helper, the
    guards common to every call site of the helper (accumulated up the call chain)."""
    fg = FuncGuards(ctx.prog, f)
    out = [(f, a) for a in fg.atoms(node)]
    if depth < 3 and f.name.startswith("_") and not f.name.startswith("__"):
        sites = [(g, n) for g, n in call_sites_of(ctx, f) if g is not f]
        if sites:
            common = None
            for g, n in sites:
                atoms = chain_guards(ctx, g, n, depth + 1)
                keyed = {(x[0].qualname, x[1]): x for x in atoms}
                common = keyed if common is None else {k: v for k, v in common.items() if k in keyed}
            out.extend((common or {}).values())
    return out


# ====================================================================== P3
def rule_P3(ctx):
    res = RuleResult("P3", "a task is staged only as a start task, for a retry, for a rerun, or "
                           "under its transition's criteria evaluated on the predecessor's "
                           "actual status and result")
    prog = ctx.prog
    a = ctx.absint
    sites = []
    for (caller, nid), callees in a.call_edges.items():
        if "conducting.WorkflowState.add_staged_task" in callees:
            sites.append(a.call_nodes[nid])
    if not sites:
        raise AnalysisError("no call site of add_staged_task found")
    for f, node in sorted(sites, key=lambda x: (x[0].qualname, x[1].lineno)):
        inst = (f.qualname, norm_src(node))
        fg = FuncGuards(prog, f)
        atoms = chain_guards(ctx, f, node)
        why = _staging_justified(ctx, f, fg, node, atoms)
        if why[0]:
            res.holds(inst, why[1])
        else:
            res.violated(inst, _f("P3", f, node, norm_src(node), why[1]))
    # the context index list handed to the next task is a fresh copy made for this transition
    uts0 = prog.function(UTS)
    for f, node in sites:
        if f is not uts0:
            continue
        kw = {k.arg: k.value for k in node.keywords}
        if "retry" in kw or not isinstance(kw.get("ctxs"), ast.Name):
            continue
        var = kw["ctxs"].id
        loop = node
        while loop is not None and not isinstance(loop, ast.For):
            loop = getattr(loop, "_parent", None)
        inst = (f.qualname, "ctxs of " + norm_src(node)[:60])
        ds = _defs(f, var)
        inside = [d for d in ds if loop is not None and any(d is x for x in ast.walk(loop))]
        fresh = [d for d in inside if isinstance(d.value, ast.Call) and callee_name(d.value) in (
            "deepcopy", "list", "copy")]
        # a list that comes from outside the loop is fine as long as no iteration changes it
        # in place: every per-transition variant is then a new list (x + [i], a filter, ..)
        shared_ok = False
        if loop is not None and not (ds and len(inside) == len(ds) and fresh):
            aliases = {var}
            for _ in range(4):
                for n_ in ast.walk(loop):
                    if isinstance(n_, ast.Assign) and isinstance(n_.value, ast.Name):
                        tg = {t_.id for t_ in n_.targets if isinstance(t_, ast.Name)}
                        if n_.value.id in aliases:
                            aliases |= tg
                        if tg & aliases:
                            aliases.add(n_.value.id)
            mutated = False
            for n_ in ast.walk(loop):
                if isinstance(n_, ast.Call) and isinstance(n_.func, ast.Attribute) and \
                        isinstance(n_.func.value, ast.Name) and n_.func.value.id in aliases and \
                        n_.func.attr in ("append", "extend", "remove", "insert", "pop", "sort",
                                         "reverse", "clear"):
                    mutated = True
                if isinstance(n_, ast.AugAssign) and isinstance(n_.target, ast.Name) and \
                        n_.target.id in aliases:
                    mutated = True
                if isinstance(n_, (ast.Subscript,)) and isinstance(n_.ctx, (ast.Store, ast.Del)) \
                        and isinstance(n_.value, ast.Name) and n_.value.id in aliases:
                    mutated = True
            roots = [d for a_ in aliases for d in _defs(f, a_)
                     if not isinstance(d.value, ast.Name)]
            copied = any(isinstance(d.value, ast.Call) and callee_name(d.value) in (
                "deepcopy", "list", "copy") for d in roots)
            shared_ok = not mutated and copied
        if (ds and len(inside) == len(ds) and fresh) or shared_ok:
            res.holds(inst, "copied per transition" if not shared_ok else
                      "copied once and never changed in place inside the loop")
        else:
            res.violated(inst, _f(
                "P3", f, node, "ctxs of the staged next task",
                "the context index list %s passed to the next task is not a fresh copy made "
                "inside the transition loop: what one transition publishes becomes visible to "
                "the targets of the other transitions of the same task" % var))
    # in-place updates of an existing staged entry (second arrival) need the same justification
    uts = prog.function(UTS)
    fg = FuncGuards(prog, uts)
    for e in effects_of(ctx, UTS):
        if e.func is uts and e.path[:3] == ("WS", "staged", "*") and e.path[3:4] in (
                ("ctxs",), ("prev",)) and e.op in ("extend", "append", "setitem"):
            inst = (uts.qualname, norm_src(e.node))
            ok, why = _criteria_guard(ctx, uts, fg, e.node, chain_guards(ctx, uts, e.node))
            if ok:
                res.holds(inst, why)
            else:
                res.violated(inst, _f("P3", uts, e.node, norm_src(e.node),
                                      "an existing staged entry is extended " + why))
    return res


RERUN = "conducting.WorkflowConductor.request_workflow_rerun"


def _is_private(qualname):
    nm = qualname.rsplit(".", 1)[1]
    return nm.startswith("_") and not nm.startswith("__")


def public_entries_reaching(ctx, f):
    """Public functions from which `f` is reachable along resolved call edges (f itself when
    it is public)."""
    cache = ctx.__dict__.setdefault("_pub_reach", {})
    if "callers" not in cache:
        callers = {}
        for (caller, _nid), callees in ctx.absint.call_edges.items():
            for c in callees:
                callers.setdefault(c, set()).add(caller)
        cache["callers"] = callers
    callers = cache["callers"]
    out, seen, work = set(), set(), [f.qualname]
    while work:
        q = work.pop()
        if q in seen:
            continue
        seen.add(q)
        if not _is_private(q):
            out.add(q)
            continue
        work.extend(callers.get(q, ()))
    return out


def _staging_justified(ctx, f, fg, node, atoms):
    kw = {k.arg: k.value for k in node.keywords}
    # (i) start tasks
    loop = node
    while loop is not None and not isinstance(loop, ast.For):
        loop = getattr(loop, "_parent", None)
    if loop is not None and unparse(loop.iter).endswith("graph.roots"):
        return True, "start task from graph.roots"
    # (ii) retry
    if "retry" in kw:
        if any(a[0] == "==" and a[2] == "retrying" for _, a in atoms):
            return True, "retry re-stage under 'new status == retrying'"
        return False, "re-staged with a retry record outside the 'retrying' branch"
    # (iii) rerun: the site is reachable from no public entry other than the rerun request
    entries = public_entries_reaching(ctx, f)
    if entries == {RERUN}:
        return True, "rerun (reachable only from request_workflow_rerun)"
    if not entries and _is_private(f.qualname) and getattr(f.node, "_inlined_somewhere", False):
        return True, "helper with no remaining caller (inlined at its call sites)"
    # (iv) transition
    return _criteria_guard(ctx, f, fg, node, atoms)


def _criteria_guard(ctx, f0, fg0, node, atoms):
    """Every way the guards of `node` can hold includes 'all(criteria) of this transition'.
    Boolean locals and result temporaries are expanded into the alternatives they stand for
    first (a verdict computed in an inlined helper reads like the inlined original)."""
    own = [a for f, a in atoms if f is f0]
    others = [(f, a) for f, a in atoms if f is not f0]
    alts = expand_alternatives(f0, fg0, own)
    if len(alts) > 1 or (alts and alts[0] != own):
        verdict = None
        for alt in alts:
            ok, why = _criteria_guard_1(ctx, f0, fg0, node, others + [(f0, a) for a in alt])
            if not ok:
                # fall back to the unexpanded form before giving up
                ok0, why0 = _criteria_guard_1(ctx, f0, fg0, node, atoms)
                return (ok0, why0) if ok0 else (ok, why)
            verdict = (ok, why)
        if verdict is not None:
            return verdict
    return _criteria_guard_1(ctx, f0, fg0, node, atoms)


def _criteria_guard_1(ctx, f0, fg0, node, atoms):
    prog = ctx.prog
    for f, a in atoms:
        if a[0] != "truthy":
            continue
        cands = []
        if a[1].startswith("all("):
            # the verdict expression itself (a boolean local has been expanded into it)
            try:
                cands.append(ast.Assign(targets=[], value=ast.parse(a[1], mode="eval").body))
            except SyntaxError:
                pass
        if a[1].isidentifier():
            # a local that holds the transition's verdict
            for d in _defs(f, a[1]):
                cands.append(d)
        elif "next" in a[1]:
            for s in ast.walk(f.node):
                if isinstance(s, ast.Assign) and len(s.targets) == 1 and isinstance(
                        s.targets[0], ast.Subscript) and unparse(s.targets[0]) == a[1] and \
                        (f is not f0 or textually_before(s, node)):
                    cands.append(s)
        for s in cands:
            if True:
                v = s.value
                hops = 0
                while isinstance(v, ast.Name) and hops < 3:
                    ds = _defs(f, v.id)
                    if len(ds) != 1:
                        break
                    v = ds[0].value
                    hops += 1
                if isinstance(v, ast.Subscript) and "next" in unparse(v):
                    # a read of the recorded decision: find what was recorded
                    for s2 in ast.walk(f.node):
                        if isinstance(s2, ast.Assign) and len(s2.targets) == 1 and unparse(
                                s2.targets[0]) == unparse(v):
                            v = s2.value
                            while isinstance(v, ast.Name) and len(_defs(f, v.id)) == 1:
                                v = _defs(f, v.id)[0].value
                            break
                if (a[1].isidentifier() or a[1].startswith("all(")) and not (
                        isinstance(v, ast.Call) and isinstance(v.func, ast.Name)
                        and v.func.id == "all"):
                    continue
                if not (isinstance(v, ast.Call) and isinstance(v.func, ast.Name)
                        and v.func.id == "all" and v.args):
                    return False, "under a transition flag that is not all(<criteria>)"
                crit = v.args[0]
                if isinstance(crit, ast.Name):
                    ds = _defs(f, crit.id)
                    crit = ds[-1].value if ds else crit
                if not (isinstance(crit, (ast.ListComp, ast.GeneratorExp))):
                    return False, "criteria are not evaluated element-wise"
                call = crit.elt
                if not (isinstance(call, ast.Call) and callee_name(call) == "evaluate"
                        and len(call.args) >= 2 and isinstance(call.args[1], ast.Name)):
                    return False, "criteria are not evaluated with expr_base.evaluate(c, ctx)"
                cds = _defs(f, call.args[1].id)
                mk = [d for d in cds if isinstance(d.value, ast.Call) and callee_name(
                    d.value) == "make_task_context"]
                if not mk:
                    return False, "criteria are evaluated against a context not built by " \
                                  "make_task_context"
                kws = {k.arg for d in mk for k in d.value.keywords}
                if "task_result" not in kws and not any(len(d.value.args) > 1 for d in mk):
                    return False, "criteria context lacks the task result"
                # the criteria list must come from this transition's edge attributes
                it = crit.generators[0].iter
                src = unparse(it)
                if isinstance(it, ast.Name):
                    ids = _defs(f, it.id)
                    src = unparse(ids[-1].value) if ids else src
                if "criteria" not in src:
                    return False, "evaluated list is not the transition's criteria"
                return True, "under all(criteria) of this transition evaluated on the task's " \
                             "actual status/result"
    return False, "without the guard that this transition's criteria evaluated true " \
                  "(guards: %s)" % fmt_atoms([a for _, a in atoms])


# ====================================================================== P4
def _reads_event_fields(test, event):
    """The expression reads an attribute of the event parameter (its status, result, item id
    ...) - other than to ask for its class."""
    if event is None:
        return False
    skip = set()
    for c in ast.walk(test):
        if isinstance(c, ast.Call) and isinstance(c.func, ast.Name) and c.func.id in (
                "isinstance", "issubclass", "type"):
            skip |= {id(x) for x in ast.walk(c)}
    for x in ast.walk(test):
        if id(x) in skip:
            continue
        if isinstance(x, ast.Attribute) and isinstance(x.value, ast.Name) and x.value.id == event:
            return True
        if isinstance(x, ast.Call) and isinstance(x.func, ast.Name) and x.func.id == "getattr" \
                and x.args and isinstance(x.args[0], ast.Name) and x.args[0].id == event:
            return True
    return False


def _is_precondition_exit(fg, origin):
    """An early exit that is a precondition of the whole call rather than a condition on what
    follows: `if ...: raise X`, or a silent `return` / `return None` whose test does not look
    at the fields of the event being reported (so it cannot ignore one report of a task and
    process the next: whatever it ignores, it ignores for every report alike)."""
    if not isinstance(origin, ast.If):
        return False
    arm = origin.body if terminates(origin.body) else origin.orelse
    if not arm:
        return False
    last = arm[-1]
    if isinstance(last, ast.Raise):
        return True
    if isinstance(last, ast.Return) and (last.value is None or (
            isinstance(last.value, ast.Constant) and last.value.value is None)):
        params = [p for p in fg.f.params if p not in ("self", "cls")]
        event = params[2] if len(params) >= 3 and fg.f.name == "update_task_state" else None
        if event is None:
            return False
        # nothing persistent happens in the exiting arm (logging apart)
        for st in arm[:-1]:
            for c in ast.walk(st):
                if isinstance(c, (ast.Assign, ast.AugAssign, ast.Delete)):
                    if not all(isinstance(t, ast.Name) for t in getattr(c, "targets", [getattr(
                            c, "target", None)])):
                        return False
        return not _reads_event_fields(origin.test, event)
    return False


def _atoms_wo_validation(fg, node):
    """Guard atoms of node, ignoring the negations of precondition exits that precede it
    (validation raises, non-selective silent returns): those are preconditions of the whole
    call, not conditions on this statement."""
    gs, _ = fg.context(node)
    out = []
    for g in gs:
        if g.kind == "early-exit" and _is_precondition_exit(fg, g.origin):
            continue
        out.extend(g.atoms)
    return out


def rule_P4(ctx):
    res = RuleResult("P4", "a started task leaves staging (it is offered once): the un-stage "
                           "calls exist and carry no extra condition")
    prog = ctx.prog
    f = prog.function(UTS)
    fg = FuncGuards(prog, f)
    completed = status_set(ctx, "COMPLETED_STATUSES")
    mc = None
    for n in ast.walk(f.node):
        if isinstance(n, ast.Call) and callee_name(n) == "process_event" and \
                "TaskStateMachine" in unparse(n.func):
            mc = n
    if mc is None:
        raise AnalysisError("update_task_state does not call TaskStateMachine.process_event")
    calls = [c for c in calls_in(f.node) if callee_name(c) == "remove_staged_task"]
    before = [c for c in calls if textually_before(c, mc)]
    after = [c for c in calls if textually_before(mc, c)]
    # (1) on start
    ok1 = False
    for c in before:
        atoms = _atoms_wo_validation(fg, c)
        extra = []
        for a in atoms:
            t = a[1] if len(a) > 1 and isinstance(a[1], str) else ""
            if a[0] == "truthy" and (t.endswith(".status") or t == "staged_task" or "staged" in t):
                continue
            if a[0] == "notin" and "items" in t:
                continue
            extra.append(a)
        if not extra:
            ok1 = True
        else:
            res.violated(("on-start", norm_src(c)), _f(
                "P4", f, c, "un-stage on start: " + norm_src(c),
                "the removal of a started task from staging carries an extra condition %s: the "
                "task can be offered again" % fmt_atoms(extra)))
    if ok1:
        res.holds(("on-start",))
    elif not before:
        res.violated(("on-start",), _f(
            "P4", f, f.node, "un-stage on start",
            "update_task_state no longer removes a started task from staging before the task "
            "machine is consulted: the task stays on offer"))
    # (2) on completion
    ok2 = False
    for c in after:
        atoms = _atoms_wo_validation(fg, c)
        alts_ = expand_alternatives(f, fg, atoms)
        if len(alts_) == 1:
            atoms = alts_[0]   # boolean locals replaced by what they stand for
        elif len(alts_) > 1 and not any(a[0] == "in" and a[2] == completed for a in atoms):
            # the condition hides in boolean locals: judge the alternatives
            def plain(alt):
                return [a for a in alt if not (a[0] == "in" and a[2] == completed)
                        and not (a[0] in ("falsy", "notin") and (
                            "has_items" in str(a[1]) or "status" in str(a[1])))]
            if all(any(a[0] == "in" and a[2] == completed for a in alt) and not plain(alt)
                   for alt in alts_):
                ok2 = True
                continue
        if any(a[0] == "==" and a[2] == "retrying" for a in atoms):
            continue  # retry re-stage
        extra = []
        has_completed = False
        for a in atoms:
            if a[0] == "in" and a[2] == completed:
                has_completed = True
                continue
            if a[0] == "or" and all(
                    any(x[0] in ("falsy", "notin") for x in alt) for alt in a[1]):
                continue  # not (with-items and abended)
            extra.append(a)
        if has_completed and not extra:
            ok2 = True
        elif has_completed:
            res.violated(("on-completion", norm_src(c)), _f(
                "P4", f, c, "un-stage on completion: " + norm_src(c),
                "the removal of a completed task from staging carries an extra condition %s"
                % fmt_atoms(extra)))
    if ok2:
        res.holds(("on-completion",))
    elif not any(i[0][0] == "on-completion" for i in res.instances):
        res.violated(("on-completion",), _f(
            "P4", f, f.node, "un-stage on completion",
            "update_task_state no longer removes a completed task from staging"))
    return res


# ====================================================================== P5
def rule_P5(ctx):
    res = RuleResult("P5", "join readiness is recomputed from the inbound criteria on every "
                           "arrival; unreachable barriers are the not-ready barrier entries")
    prog = ctx.prog
    f = prog.function(UTS)
    fg = FuncGuards(prog, f)
    ready = [e for e in effects_of(ctx, UTS) if e.func is f and e.path[-1:] == ("ready",)
             and e.path[:2] == ("WS", "staged")]
    stage_calls = [c for c in calls_in(f.node) if callee_name(c) == "add_staged_task"
                   and "retry" not in {k.arg for k in c.keywords}]
    if not ready:
        res.violated(("ready",), _f(
            "P5", f, f.node, "assignment of the staged entry's ready flag",
            "update_task_state never recomputes the ready flag of the staged next task"))
        return res
    for e in ready:
        inst = ("ready", norm_src(e.node))
        v = e.node.value if isinstance(e.node, ast.Assign) else None
        ok_val = False
        if isinstance(v, ast.Compare) and len(v.ops) == 1 and isinstance(v.ops[0], ast.Eq):
            sides = [v.left, v.comparators[0]]
            call = [s for s in sides if isinstance(s, ast.Call) and callee_name(s) ==
                    "get_inbound_criteria_status"]
            const = []
            for s in sides:
                try:
                    const.append(prog.fold(s, f.module))
                except NotFoldable:
                    pass
            if call and "inbound_criteria_satisfied" in const:
                ok_val = True
        if not ok_val:
            res.violated(inst, _f(
                "P5", f, e.node, norm_src(e.node),
                "the ready flag is not 'inbound criteria status == SATISFIED'"))
            continue
        # it must cover both arms: its guards are a subset of the guards of each staging arm
        mine = set(fg.atoms(e.node))
        bad = None
        for c in stage_calls:
            other = set(fg.atoms(c))
            if not mine <= other or not textually_before(c, e.node):
                bad = c
        ext = [x for x in effects_of(ctx, UTS) if x.func is f and x.op == "extend"
               and x.path[:3] == ("WS", "staged", "*")]
        for x in ext:
            if not mine <= set(fg.atoms(x.node)) or not textually_before(x.node, e.node):
                bad = x.node
        if bad is None:
            res.holds(inst)
        else:
            res.violated(inst, _f(
                "P5", f, e.node, norm_src(e.node),
                "the ready flag is not recomputed after every way of staging / extending the "
                "next task (e.g. %s)" % norm_src(bad)))
    # unreachable barriers
    g = prog.function("conducting.WorkflowState.get_unreachable_barriers")
    gg = FuncGuards(prog, g)
    # every way an entry gets into the reported list: append under guards, or the element of
    # a comprehension under its filters
    apps = [c for c in calls_in(g.node) if callee_name(c) == "append"]
    apps += [n.elt for n in ast.walk(g.node) if isinstance(n, (ast.ListComp, ast.GeneratorExp))
             and isinstance(n.elt, ast.Name) and any(
                 isinstance(gen.iter, ast.Call) and callee_name(gen.iter) == "get_staged_tasks"
                 for gen in n.generators)]
    for c in apps:
        atoms = gg.atoms(c)
        inst = ("unreachable", norm_src(c) if isinstance(c, ast.Call) else
                "element of " + norm_src(c._parent))
        barrier = any(a[0] in ("in",) and "barriers" in str(a[2]) for a in atoms)
        notready = any(a[0] == "falsy" and "ready" in a[1] for a in atoms)
        unsat = any(a[0] == "==" and a[2] == "inbound_criteria_not_satisfied" for a in atoms)
        if barrier and notready and unsat:
            res.holds(inst)
        else:
            res.violated(inst, _f(
                "P5", g, c, norm_src(c),
                "unreachable barriers are not exactly the staged barrier entries that are not "
                "ready and whose criteria are NOT_SATISFIED (guards: %s)" % fmt_atoms(atoms)))
    if not apps:
        res.violated(("unreachable",), _f("P5", g, g.node, "get_unreachable_barriers",
                                          "no barrier is ever reported unreachable"))
    unf = [c for c in calls_in(g.node) if callee_name(c) == "get_staged_tasks"]
    if unf and not any(_is_filtered_staged_call(c) for c in unf):
        res.holds(("unreachable", "scans all staged entries"))
    else:
        res.violated(("unreachable", "scan"), _f(
            "P5", g, g.node, "staged scan", "get_unreachable_barriers only scans ready entries, "
            "so a join that is not ready is never examined"))
    return res


# ====================================================================== P6
def rule_P6(ctx):
    res = RuleResult("P6", "retry is decided before any transition, publish or workflow event; "
                           "the attempt bound dominates every retry; the tally is incremented "
                           "with the re-stage")
    prog = ctx.prog
    f = prog.function(UTS)
    fg = FuncGuards(prog, f)
    completed = status_set(ctx, "COMPLETED_STATUSES")
    R = None
    for n in ast.walk(f.node):
        if isinstance(n, ast.If) and any(callee_name(c) == "_evaluate_task_retry"
                                         for c in calls_in(n.test)):
            R = n
    if R is None:
        # the decision may have been moved into helpers that are inlined here: the statement
        # that hands the task over to a retry is the anchor then
        for n in ast.walk(f.node):
            if isinstance(n, ast.If) and any(callee_name(c) == "TaskRetryEvent"
                                             for b in n.body for c in calls_in(b)):
                R = n
    if R is None:
        res.violated(("R",), _f("P6", f, f.node, "retry decision",
                                "update_task_state no longer evaluates the task retry"))
        return res
    res.facts["retry_precondition"] = unparse(R.test)
    active = status_set(ctx, "ACTIVE_STATUSES")
    conj = fg.norm.conj(R.test, True)
    grant_alts = expand_alternatives(f, fg, list(conj))
    if all(any(a[0] == "in" and a[2] == active and "status" in a[1] for a in alt)
           for alt in grant_alts):
        res.holds(("precondition",), "retry only while the workflow status is active")
    else:
        res.violated(("precondition",), _f(
            "P6", f, R, "retry precondition",
            "the retry decision no longer requires the workflow status to be active: an attempt "
            "that reports after the workflow failed / was canceled is re-staged instead of "
            "completing"))
    # (i) ordering
    firsts = []
    for e in effects_of(ctx, UTS):
        if e.func is f and (e.path[:3] == ("WS", "sequence", "*") and e.path[3:4] in (
                ("next",),) or (e.path[3:5] == ("ctxs", "out")) or e.path[:2] == ("WS", "contexts")):
            firsts.append(e.node)
    wf_calls = [c for c in calls_in(f.node) if callee_name(c) == "process_event"
                and "WorkflowStateMachine" in unparse(c.func)]
    if not firsts or not wf_calls:
        raise AnalysisError("update_task_state: transition writes or workflow event not found")
    late = [n for n in firsts + wf_calls if not textually_before(R, n)]
    if late:
        res.violated(("order",), _f(
            "P6", f, late[0], "retry decision order",
            "%s happens before the retry decision: an attempt that is retried already "
            "fired a transition / publish / workflow event" % norm_src(late[0])))
    else:
        res.holds(("order",), "%d writes and %d workflow events follow the decision" % (
            len(firsts), len(wf_calls)))
    # (ii) the retried branch leaves the function
    if terminates(R.body) and any(isinstance(s, ast.Return) for s in ast.walk(R)):
        res.holds(("retried branch returns",))
    else:
        res.violated(("retried branch returns",), _f(
            "P6", f, R, "retry branch", "after deciding to retry, update_task_state falls "
            "through to the transitions of the retried attempt"))
    # (iii) transitions imply the decision's guards
    gR = [a for a in fg.atoms(R)]
    for n in firsts:
        gn = fg.atoms(n)
        missing = [a for a in gR if a not in gn]
        if missing:
            res.violated(("implied", norm_src(n)), _f(
                "P6", f, n, "transition guard: " + norm_src(n),
                "the transition block can be reached without passing the retry decision "
                "(missing guards %s)" % fmt_atoms(missing)))
        else:
            res.holds(("implied", norm_src(n)))
    # (iv) bound and condition, on every way a retry can be granted
    from sa.core import subst_locals
    g = prog.find_function("conducting.WorkflowConductor._evaluate_task_retry")
    grants = []   # (function, node for the report, atoms)
    if g is not None and any(callee_name(c) == "_evaluate_task_retry" for c in calls_in(R.test)):
        gg = FuncGuards(prog, g)
        for r in ast.walk(g.node):
            if isinstance(r, ast.Return) and isinstance(r.value, ast.Constant) and r.value.value is True:
                grants.append((g, r, gg.atoms(r), norm_src(r)))
    else:
        for k_, alt in enumerate(grant_alts):
            grants.append((f, R, alt, "grant %d" % k_))

    def _resolved(fn, txt):
        """atom text with single-assignment locals replaced by what they stand for"""
        try:
            return unparse(subst_locals(fn.node, ast.parse(txt, mode="eval").body))
        except (SyntaxError, ValueError):
            return txt

    def _flat(ats):
        for a_ in ats:
            if a_[0] in ("or", "and"):
                for alt in a_[1]:
                    for x_ in _flat(alt):
                        yield x_
            else:
                yield a_
    for fn_, node_, atoms, label in grants:
        ok = False
        for a in _flat(atoms):
            if a[0] in ("<", ">") and isinstance(a[2], tuple):
                lt, rt = (a[1], a[2][1]) if a[0] == "<" else (a[2][1], a[1])
                if "tally" in _resolved(fn_, lt) and "count" in _resolved(fn_, rt):
                    ok = True
        inst = ("bound", label, getattr(node_, "lineno", 0))
        if ok:
            res.holds(inst)
        else:
            res.violated(inst, _f(
                "P6", fn_, node_, "return True" if fn_ is g else "retry granted",
                "a retry is granted without 'tally < count' in "
                "force (guards: %s): more than count+1 attempts" % fmt_atoms(atoms)))
        # the policy's own condition decides: a grant either follows a true evaluation of
        # `when`, or is the default (abended) rule of a policy that has no `when`
        consulted = False
        for a_ in _flat(atoms):
            t_ = _resolved(fn_, a_[1]) if isinstance(a_[1], str) else ""
            if a_[0] == "is" and "when" in t_ and a_[2] is None:
                consulted = True
            if a_[0] == "falsy" and "when" in t_ and "evaluate" not in t_:
                consulted = True
            if a_[0] == "truthy" and "evaluate" in t_ and "when" in t_:
                consulted = True
        inst = ("when", label, getattr(node_, "lineno", 0))
        if consulted:
            res.holds(inst)
        else:
            res.violated(inst, _f(
                "P6", fn_, node_, "return True without the retry condition" if fn_ is g
                else "retry granted without the retry condition",
                "a retry is granted on a path that neither evaluated the policy's `when` to "
                "true nor established that the policy has no `when` (guards: %s): a failed "
                "attempt is retried although its retry condition is false"
                % fmt_atoms(atoms)))
    if not grants:
        res.violated(("bound",), _f("P6", f, R, "retry granted",
                                    "no path grants a retry: the retry policy is dead"))
    # (iv-c) the evaluated delay / count are written back under the key they were read from
    srt = prog.find_function("conducting.WorkflowConductor.setup_retry_in_task_state")
    if srt is not None:
        n_wb = 0
        for a_ in ast.walk(srt.node):
            if not (isinstance(a_, ast.Assign) and len(a_.targets) == 1 and isinstance(
                    a_.targets[0], ast.Subscript) and isinstance(
                    a_.targets[0].slice, ast.Constant)):
                continue
            key = a_.targets[0].slice.value
            v = a_.value
            srcs = [v]
            if isinstance(v, ast.Name):
                srcs = [d.value for d in _defs(srt, v.id)]
            for sv in srcs:
                if isinstance(sv, ast.Call) and callee_name(sv) == "evaluate" and sv.args and \
                        isinstance(sv.args[0], ast.Subscript) and isinstance(
                        sv.args[0].slice, ast.Constant):
                    n_wb += 1
                    inst = ("write-back", norm_src(a_))
                    if sv.args[0].slice.value == key:
                        res.holds(inst)
                    else:
                        res.violated(inst, _f(
                            "P6", srt, a_, "write-back of evaluated retry[%r]" % key,
                            "the value stored as the retry %s is evaluated from the policy's "
                            "%r expression" % (key, sv.args[0].slice.value)))
        if not n_wb:
            res.note("no in-place evaluation of retry delay/count found in "
                     "setup_retry_in_task_state")
    # (v) tally and re-stage together
    tallies = [e for e in effects_of(ctx, UTS) if e.func is f and e.path[-1:] == ("tally",)]
    restage = [c for c in calls_in(f.node) if callee_name(c) == "add_staged_task"
               and "retry" in {k.arg for k in c.keywords}]
    helper_restage = None
    if not restage:
        # the re-stage may have been extracted into a private helper called from here
        for c in calls_in(f.node):
            cn = callee_name(c)
            h = prog.find_function("conducting.WorkflowConductor.%s" % cn) if cn and cn.startswith("_") else None
            if h is not None:
                hs = [x for x in calls_in(h.node) if callee_name(x) == "add_staged_task"
                      and "retry" in {k.arg for k in x.keywords}]
                if hs:
                    restage = [c]
                    helper_restage = (h, hs[0], c)
    if not tallies or not restage:
        res.violated(("tally",), _f("P6", f, f.node, "tally / re-stage",
                                    "retry tally increment or re-stage with retry= vanished"))
    else:
        gt, gs = set(fg.atoms(tallies[0].node)), set(fg.atoms(restage[0]))
        rkw = {k.arg: k.value for k in restage[0].keywords}.get("retry")
        if helper_restage is not None:
            h, hcall, outer = helper_restage
            rk = {k.arg: k.value for k in hcall.keywords}.get("retry")
            rkw = rk
            # map the helper's parameter back to the caller's argument
            if isinstance(rk, ast.Subscript) and isinstance(rk.value, ast.Name) and rk.value.id in h.params:
                idx = h.params.index(rk.value.id) - 1
                if 0 <= idx < len(outer.args):
                    rkw = ast.Subscript(value=outer.args[idx], slice=rk.slice, ctx=ast.Load())
        own = isinstance(rkw, ast.Subscript) and unparse(rkw).replace('"', "'").endswith("['retry']") \
            and unparse(rkw.value) == unparse(tallies[0].node.target.value.value) if isinstance(
                tallies[0].node, ast.AugAssign) and isinstance(tallies[0].node.target, ast.Subscript) \
            and isinstance(tallies[0].node.target.value, ast.Subscript) else False
        if not own:
            res.violated(("restage-record",), _f(
                "P6", f, restage[0], "retry record of the re-stage",
                "the task is re-staged with %s, not with the execution record's own (evaluated) "
                "retry entry: the offered retry delay / count are not the configured ones"
                % (unparse(rkw) if rkw is not None else "?")))
        else:
            res.holds(("restage-record",))
        # the retried attempt is rendered with the context and back-references of the record
        if helper_restage is None and own:
            rec = unparse(rkw.value)
            kws = {k.arg: k.value for k in restage[0].keywords}

            def _strip_copy(v):
                while isinstance(v, ast.Call) and callee_name(v) in ("deepcopy", "list", "dict",
                                                                     "copy") and v.args:
                    v = v.args[0]
                return unparse(v).replace('"', "'") if v is not None else None
            want = {"ctxs": "%s['ctxs']['in']" % rec, "prev": "%s['prev']" % rec}

            def _from_record(v, depth=0):
                """The value is computed from the execution record (possibly through a
                copying helper that is handed the record, and through locals)."""
                if v is None or depth > 4:
                    return False
                names = {x.id for x in ast.walk(v) if isinstance(x, ast.Name)}
                if rec in names:
                    return True
                for nm in names:
                    for d_ in _defs(f, nm):
                        if _from_record(d_.value, depth + 1):
                            return True
                    # tuple-unpacked from a call on the record:  a, b = copy_refs(record)
                    for st in ast.walk(f.node):
                        if isinstance(st, ast.Assign) and len(st.targets) == 1 and isinstance(
                                st.targets[0], ast.Tuple) and any(
                                isinstance(e_, ast.Name) and e_.id == nm for e_ in st.targets[0].elts):
                            if _from_record(st.value, depth + 1):
                                return True
                return False
            for kname, wtxt in sorted(want.items()):
                inst = ("restage-" + kname,)
                got = _strip_copy(kws.get(kname))
                if got == wtxt or (kws.get(kname) is not None and _from_record(kws.get(kname))):
                    res.holds(inst)
                else:
                    res.violated(inst, _f(
                        "P6", f, restage[0], "%s of the re-stage" % kname,
                        "the retry re-stage passes %s=%s instead of the execution record's own "
                        "%s: the retried attempt is rendered with a different input context / "
                        "predecessor links than the attempt it repeats" % (kname, got, wtxt)))
        if gt == gs and any(a[0] == "==" and a[2] == "retrying" for a in gt):
            res.holds(("tally",))
        else:
            res.violated(("tally",), _f(
                "P6", f, tallies[0].node, "tally / re-stage",
                "the tally increment and the re-stage are not in the same 'retrying' block"))
    # (vi) retry delay reaches the offer
    h = prog.function(GNT)
    hg = FuncGuards(prog, h)
    ok = False
    for n in ast.walk(h.node):
        if isinstance(n, ast.Assign) and "delay" in unparse(n.targets[0]) and "retry" in unparse(
                n.value):
            if any(a[0] == "in" and "retry" in a[1] for a in hg.atoms(n)):
                ok = True
    if ok:
        res.holds(("delay",))
    else:
        res.violated(("delay",), _f("P6", h, h.node, "retry delay",
                                    "get_next_tasks no longer offers a retried task with its "
                                    "retry delay"))
    return res


# ====================================================================== P7 (join threshold)
def _resolve_expr(ctx, f, expr, depth=0):
    """(function, expression) that `expr` stands for: single-assignment locals substituted,
    and a call of a repository function that consists of straight-line assignments and one
    return replaced by that function's (substituted) return expression."""
    from sa.core import subst_locals
    prog = ctx.prog
    e = subst_locals(f.node, expr)
    if depth < 3 and isinstance(e, ast.Call):
        callees = set()
        for (caller, nid), cs in ctx.absint.call_edges.items():
            if caller == f.qualname and ctx.absint.call_nodes[nid][1] is expr:
                callees |= cs
        if not callees and isinstance(e.func, ast.Attribute):
            # calls reached through a substituted copy are resolved by method name
            cands = [g for g in prog.all_functions(include_dead=True) if g.name == e.func.attr
                     and g.module.short in ("graphing", "conducting", "machines")]
            callees = {g.qualname for g in cands} if len(cands) == 1 else set()
        if len(callees) == 1:
            h = prog.find_function(next(iter(callees)))
            if h is not None:
                rets = [r for r in ast.walk(h.node) if isinstance(r, ast.Return)]
                if len(rets) == 1 and rets[0].value is not None:
                    return _resolve_expr(ctx, h, rets[0].value, depth + 1)
    return f, e


def rule_P7(ctx):
    res = RuleResult("P7", "a join is satisfied exactly when the number of distinct inbound "
                           "tasks with a satisfied transition on the same route reaches the "
                           "barrier (all of them for '*'); barriers are composed only for join "
                           "tasks")
    prog = ctx.prog
    f = prog.function("conducting.WorkflowConductor.get_inbound_criteria_status")
    fg = FuncGuards(prog, f)
    rets = [r for r in ast.walk(f.node) if isinstance(r, ast.Return) and r.value is not None]
    sat = []
    for r in rets:
        try:
            if prog.fold(r.value, f.module) == "inbound_criteria_satisfied":
                sat.append(r)
        except NotFoldable:
            pass
    if not sat:
        res.violated(("threshold",), _f("P7", f, f.node, "return SATISFIED",
                                        "get_inbound_criteria_status never reports SATISFIED"))
        return res
    for r in sat:
        atoms = fg.atoms(r)
        inst = ("threshold", norm_src(r), r.lineno)
        ok = False
        why = "guards: %s" % fmt_atoms(atoms)
        for a in atoms:
            lhs_txt = a[1] if len(a) > 1 and isinstance(a[1], str) else ""
            if a[0] == ">=" and ".count(True)" not in lhs_txt and lhs_txt.isidentifier():
                lds = _defs(f, lhs_txt)
                if len(lds) == 1:
                    lhs_txt = unparse(lds[0].value)
            if a[0] == ">=" and ".count(True)" in lhs_txt and isinstance(a[2], tuple):
                req = a[2][1]
                ds = _defs(f, req)
                if len(ds) == 1:
                    hf, ife = _resolve_expr(ctx, f, ds[0].value)
                    if isinstance(ife, ast.IfExp):
                        star = False
                        for cmp_ in ast.walk(ife.test):
                            if isinstance(cmp_, ast.Compare) and len(cmp_.ops) == 1 and isinstance(
                                    cmp_.ops[0], ast.Eq):
                                for side in (cmp_.left, cmp_.comparators[0]):
                                    try:
                                        if prog.fold(side, hf.module) == "*":
                                            star = True
                                    except NotFoldable:
                                        pass
                        body_all = "len(" in unparse(ife.body)
                        def _is_barrier(v):
                            if isinstance(v, ast.BoolOp) and isinstance(v.op, ast.Or) and len(
                                    v.values) == 2 and isinstance(v.values[1], ast.Constant) \
                                    and v.values[1].value == 1:
                                v = v.values[0]
                            return isinstance(v, ast.Call) and callee_name(v) == "get_barrier"
                        from_graph = _is_barrier(ife.orelse) and any(
                            _is_barrier(x) for c_ in ast.walk(ife.test)
                            if isinstance(c_, ast.Compare) for x in [c_.left] + c_.comparators)
                        if star and body_all and from_graph:
                            ok = True
                        else:
                            why = "requirement is not 'all inbound tasks if barrier == * else " \
                                  "the barrier of the graph node'"
                    else:
                        why = "requirement is not 'all inbound tasks if barrier == * else the " \
                              "barrier of the graph node'"
            if a[0] == "<=" and isinstance(a[2], tuple) and ".count(True)" in a[2][1]:
                ok = ok or False
        if ok:
            res.holds(inst)
        else:
            res.violated(inst, _f(
                "P7", f, r, "return SATISFIED",
                "SATISFIED is not returned under 'count of satisfied inbound tasks >= "
                "requirement' (%s)" % why))
    # work-in-progress: an undecided inbound task keeps the join open while the workflow still
    # has something in flight OR something staged ready (the same notion of "work left" the
    # status machine uses)
    wip = []
    for r in rets:
        try:
            if prog.fold(r.value, f.module) == "inbound_criteria_wip":
                wip.append(r)
        except NotFoldable:
            pass
    for r in wip:
        atoms = fg.atoms(r)
        txt = " ".join(fmt_atoms(atoms))
        inst = ("wip", norm_src(r), r.lineno)
        if "has_active_tasks" in txt and "has_staged_tasks" in txt and "None in" in txt:
            res.holds(inst)
        else:
            res.violated(inst, _f(
                "P7", f, r, "return WIP",
                "a join with an undecided inbound task is reported work-in-progress without "
                "testing both 'tasks in flight' and 'tasks staged ready': it is declared "
                "unreachable (or kept open) on partial evidence (guards: %s)" % fmt_atoms(atoms)))
    if not wip:
        res.violated(("wip",), _f("P7", f, f.node, "return WIP",
                                  "get_inbound_criteria_status never reports work-in-progress"))
    # distinct inbound tasks on the same route
    dc = [n for n in ast.walk(f.node) if isinstance(n, ast.DictComp)]
    distinct = any("set(" in unparse(_resolve_expr(ctx, f, n.generators[0].iter)[1]) for n in dc)
    (res.holds if distinct else lambda i: res.violated(i, _f(
        "P7", f, f.node, "inbound evaluation keys",
        "inbound evaluation is not keyed by the set of distinct inbound tasks")))(("distinct",))
    same_route = any(callee_name(c) == "get_task_state_entry" and len(c.args) == 2 and isinstance(
        c.args[1], ast.Name) and c.args[1].id in f.params for c in calls_in(f.node))
    (res.holds if same_route else lambda i: res.violated(i, _f(
        "P7", f, f.node, "route of inbound records",
        "inbound task records are not looked up on the route passed in")))(("same route",))
    # satisfied = recorded decision of the predecessor for this very transition
    uses_next = any(isinstance(n, ast.Subscript) and "['next']" in unparse(n).replace('"', "'")
                    for n in ast.walk(f.node))
    (res.holds if uses_next else lambda i: res.violated(i, _f(
        "P7", f, f.node, "satisfied transition",
        "satisfaction is not read from the predecessor's recorded transition decisions")))(
        ("recorded decision",))
    # composer
    comp = prog.find_function("composers.native.WorkflowComposer._compose_wf_graph")
    if comp is None:
        raise AnalysisError("composer vanished")
    cg = FuncGuards(prog, comp)
    sb = [c for c in calls_in(comp.node) if callee_name(c) == "set_barrier"]
    for c in sb:
        atoms = cg.atoms(c)
        inst = ("composer", norm_src(c))
        guarded = any(a[0] == "truthy" and "is_join_task" in a[1] for a in atoms)
        extra = [a for a in atoms if not (a[0] == "truthy" and "is_join_task" in a[1])
                 and not (a[0] == "falsy" and "empty()" in a[1])
                 and not (a[0] in ("truthy", "isinstance") and ("wf_spec" in a[1] or "spec" in a[1]))]
        if extra:
            guarded = False
        val = {k.arg: k.value for k in c.keywords}.get("value") or (c.args[1] if len(c.args) > 1 else None)
        okv = False
        if isinstance(val, ast.Name):
            ds = _defs(comp, val.id)
            if ds and isinstance(ds[-1].value, ast.IfExp):
                i = ds[-1].value
                try:
                    star_v = prog.fold(i.body, comp.module) == "*"
                except NotFoldable:
                    star_v = False
                # the test compares the declared join with "all" (written out or as a constant)
                all_v = False
                for cmp_ in ast.walk(i.test):
                    if isinstance(cmp_, ast.Compare) and len(cmp_.ops) == 1 and isinstance(
                            cmp_.ops[0], ast.Eq):
                        for side in (cmp_.left, cmp_.comparators[0]):
                            try:
                                if prog.fold(side, comp.module) == "all":
                                    all_v = True
                            except NotFoldable:
                                pass
                okv = star_v and all_v and "join" in unparse(i.test) and "join" in unparse(i.orelse)
        if guarded and okv:
            res.holds(inst)
        else:
            res.violated(inst, _f(
                "P7", comp, c, norm_src(c),
                "barrier is not set exactly for join tasks with value '*' iff join == all"))
    if not sb:
        res.violated(("composer",), _f("P7", comp, comp.node, "set_barrier",
                                       "the composer never sets a barrier"))
    # the graph stores the barrier it is given
    gsb = prog.find_function("graphing.WorkflowGraph.set_barrier")
    if gsb is not None:
        ok = False
        for c in calls_in(gsb.node):
            if callee_name(c) == "update_task":
                kv = {k.arg: k.value for k in c.keywords}.get("barrier")
                if isinstance(kv, ast.Name) and kv.id in gsb.params:
                    ok = True
        if ok:
            res.holds(("graph", "set_barrier stores its argument"))
        else:
            res.violated(("graph", "set_barrier"), _f(
                "P7", gsb, gsb.node, "set_barrier value",
                "WorkflowGraph.set_barrier does not store the barrier value it is given unchanged"))
    return res


# ====================================================================== P8
def _window_sites(prog):
    """(function, statement, Sub node, result name) for `A = <concurrency> - len(<active>)`."""
    out = []
    for f in prog.all_functions():
        if f.module.short != "conducting":
            continue
        for s in ast.walk(f.node):
            if not (isinstance(s, ast.Assign) and len(s.targets) == 1 and isinstance(
                    s.targets[0], ast.Name)):
                continue
            for v in ast.walk(s.value):
                if not (isinstance(v, ast.BinOp) and isinstance(v.op, ast.Sub)
                        and "concurrency" in unparse(v.left)):
                    continue
                r = v.right
                is_len = isinstance(r, ast.Call) and callee_name(r) == "len"
                if isinstance(r, ast.Name):
                    ds = _defs(f, r.id)
                    is_len = bool(ds) and all(isinstance(d.value, ast.Call) and callee_name(
                        d.value) == "len" for d in ds)
                if is_len:
                    out.append((f, s, v, s.targets[0].id))
                    break
    return out


def _int_consts(stmts):
    out = set()
    for s in stmts:
        for n in ast.walk(s):
            if isinstance(n, ast.Constant) and isinstance(n.value, int) and not isinstance(
                    n.value, bool):
                out.add(n.value)
    return out


def rule_P8(ctx):
    """With-items window: the concurrency used for the window is at least 1 whatever the
    rendered value (the sign cases are decided exhaustively over the comparison constants of
    the normalising statements), items are offered only while the window is open
    (availability > 0) and at most `availability` of the not-yet-run items are taken."""
    from sa.requests import _Shim
    from sa.symx import PathEnumerator, Sym
    res = RuleResult("P8", "with-items window: concurrency <= 0 is normalised to 1 before the "
                           "window is computed; actions are offered only while availability > 0 "
                           "and at most availability of the not-run items are taken")
    prog = ctx.prog
    sites = _window_sites(prog)
    if not sites:
        raise AnalysisError("with-items window computation (concurrency - len(active items)) "
                            "not found in conducting")
    for f, stmt, sub, avail in sites:
        E = sub.left
        # a local copy of the rendered value stands for what it was copied from
        node = stmt
        for _hop in range(3):
            if not isinstance(E, ast.Name):
                break
            ds_ = _defs(f, E.id)
            if len(ds_) == 1 and isinstance(ds_[0].value, (ast.Name, ast.Subscript, ast.Attribute)) \
                    and textually_before(ds_[0], stmt):
                E, node = ds_[0].value, ds_[0]
            else:
                break
        etxt = unparse(E)
        names = {x.id for x in ast.walk(E) if isinstance(x, ast.Name)}
        # statements that can change E before the subtraction: in the enclosing blocks'
        # prefixes (outermost first), those that mention E
        chain = []
        while node is not None and node is not f.node:
            parent = getattr(node, "_parent", None)
            for fld in ("body", "orelse", "finalbody"):
                lst = getattr(parent, fld, None)
                if isinstance(lst, list) and node in lst:
                    chain.insert(0, lst[:lst.index(node)])
            node = parent
        prefix = []
        for lst in chain:
            for s_ in lst:
                if any(isinstance(t, (ast.Subscript, ast.Name)) and unparse(t) == etxt
                       for a_ in ast.walk(s_) if isinstance(a_, (ast.Assign, ast.AugAssign))
                       for t in (a_.targets if isinstance(a_, ast.Assign) else [a_.target])):
                    prefix.append(s_)
        inst = (f.qualname, "normalised " + norm_src(E))
        consts = _int_consts(prefix) | {0, 1}
        points = sorted({c + d for c in consts for d in (-1, 0, 1)} |
                        {min(consts) - 100, max(consts) + 100})
        bad = None
        for x in points:
            def atomizer(a, env):
                raise AnalysisError("normalisation of %s depends on something else than its "
                                    "value" % etxt)
            body = list(prefix) + [ast.Return(value=E)]
            en = PathEnumerator(prog, _Shim(f, body), {etxt: x}, atomizer)
            leaves = en.enumerate()
            val = leaves[0][0] if len(leaves) == 1 else None
            if isinstance(val, Sym) or not isinstance(val, int):
                raise AnalysisError("cannot evaluate the normalised concurrency in %s" % f.qualname)
            if val < 1 or (x >= 1 and val != x):
                bad = (x, val)
                break
        if bad is None:
            res.holds(inst, "evaluated at %d sign points of the comparison constants" % len(points))
        else:
            res.violated(inst, _f(
                "P8", f, stmt, "normalisation of " + norm_src(E),
                "a rendered concurrency of %d is used as %d when the window is computed: "
                "with concurrency <= 0 no item (or a wrong number of items) is ever offered"
                % bad))
        # offers only while the window is open, and at most `avail` of them
        fg = FuncGuards(prog, f)
        later = []
        cur_ = stmt
        while cur_ is not None and cur_ is not f.node and not isinstance(cur_, (ast.For, ast.While)):
            par = getattr(cur_, "_parent", None)
            for fld in ("body", "orelse", "finalbody"):
                lst = getattr(par, fld, None)
                if isinstance(lst, list) and cur_ in lst:
                    later.extend(lst[lst.index(cur_) + 1:])
            cur_ = par
            if isinstance(cur_, ast.Try):
                break
        blk = ast.Module(body=later, type_ignores=[])
        # the window value may be handed on through copies (result temporaries)
        aliases = {avail}
        for _ in range(3):
            for n_ in ast.walk(blk):
                if isinstance(n_, ast.Assign) and isinstance(n_.value, ast.Name) and \
                        n_.value.id in aliases:
                    aliases |= {t_.id for t_ in n_.targets if isinstance(t_, ast.Name)}
        offers = []
        for n in ast.walk(blk):
            if isinstance(n, ast.Assign) and any(
                    isinstance(t, ast.Subscript) and isinstance(t.slice, ast.Constant)
                    and t.slice.value == "actions" for t in n.targets) and textually_before(stmt, n):
                offers.append(n)
        # an offer of a local (a result temporary): its definitions after the window
        # computation are the offers, each under its own guards
        in_blk = {id(x) for x in ast.walk(blk)}
        for _hop in range(3):
            grown = []
            for n in offers:
                if isinstance(n.value, ast.Name):
                    ds_ = [d for d in _defs(f, n.value.id) if id(d) in in_blk]
                    if ds_:
                        grown.extend(ds_)
                        continue
                grown.append(n)
            if len(grown) == len(offers) and all(a is b for a, b in zip(grown, offers)):
                break
            offers = grown
        avail_disp = avail.split("__")[0]
        inst2 = (f.qualname, "window " + avail_disp)
        if not offers:
            res.violated(inst2, _f("P8", f, stmt, "offer under the window",
                                   "no assignment of the task's actions follows the window "
                                   "computation"))
            continue
        problems = []
        for n in offers:
            v = n.value
            alts = [(v.body, v.orelse)] if isinstance(v, ast.IfExp) else [(v, None)]
            for body, other in alts:
                if isinstance(body, (ast.List, ast.Tuple)) and not body.elts:
                    continue
                atoms = fg.atoms(body)
                clamped = isinstance(stmt.value, ast.Call) and callee_name(stmt.value) == "max" \
                    and any(isinstance(a_, ast.Constant) and a_.value == 0 for a_ in stmt.value.args)
                if not clamped and not any((a[0] == ">" and a[1] in aliases and a[2] == 0)
                                           or (a[0] == ">=" and a[1] in aliases and a[2] == 1)
                                           for a in atoms):
                    problems.append("actions are offered without requiring %s > 0 (%s)" % (
                        avail_disp, norm_src(n)))
        # what is offered is selected by the items' own not-run status, not by position
        unset = prog.fold_name("statuses", "UNSET")
        for n in offers:
            closure, work_, seen_ = [], [n.value], set()
            while work_:
                e_ = work_.pop()
                closure.append(e_)
                for x in ast.walk(e_):
                    if isinstance(x, ast.Name) and x.id not in seen_:
                        seen_.add(x.id)
                        work_.extend(d.value for d in _defs(f, x.id))
                        work_.extend(d.value for d in ast.walk(f.node) if isinstance(d, ast.Assign)
                                     and isinstance(d.value, ast.Name) and any(
                                         isinstance(t_, ast.Name) and t_.id == x.id
                                         for t_ in d.targets))
                        # a list filled by appends: what is appended, and under which tests
                        for c_ in calls_in(f.node):
                            if callee_name(c_) in ("append", "extend") and isinstance(
                                    c_.func.value, ast.Name) and c_.func.value.id == x.id:
                                work_.extend(c_.args)
                                up_ = c_
                                while up_ is not None and up_ is not f.node:
                                    par_ = getattr(up_, "_parent", None)
                                    if isinstance(par_, ast.If) and up_ in par_.body:
                                        work_.append(par_.test)
                                    up_ = par_
            by_status = False
            for e_ in closure:
                for c_ in ast.walk(e_):
                    if isinstance(c_, ast.Compare) and len(c_.ops) == 1 and isinstance(
                            c_.ops[0], (ast.Eq, ast.In)):
                        try:
                            rv = prog.fold(c_.comparators[0], f.module)
                        except NotFoldable:
                            continue
                        if rv == unset or (isinstance(rv, (list, tuple)) and list(rv) == [unset]):
                            by_status = True
            if not by_status and not (isinstance(n.value, (ast.List, ast.Tuple))
                                      and not n.value.elts):
                problems.append("the offered actions (%s) are not selected by the not-run "
                                "(unset) status of their items: an item that already ran can be "
                                "offered again and a reset one skipped" % norm_src(n))
        sliced = any(isinstance(n, ast.Subscript) and isinstance(n.slice, ast.Slice)
                     and n.slice.lower is None and isinstance(n.slice.upper, ast.Name)
                     and n.slice.upper.id in aliases and n.slice.step is None
                     for n in ast.walk(blk))
        if not sliced:
            problems.append("the not-run items are not cut to the first %s" % avail_disp)
        if problems:
            res.violated(inst2, _f("P8", f, stmt, "offer under the window " + avail_disp, problems[0]))
        else:
            res.holds(inst2)
    # (c) the concurrency a definition asks for reaches the window whatever its value: where
    # the rendered task gets its 'concurrency' entry, no branch tests the declared / rendered
    # value for truth (a literal or rendered 0 would be dropped - 'no limit' - instead of being
    # normalised to 1 like every other non-positive value)
    gt = prog.find_function("conducting.WorkflowConductor.get_task")
    if gt is not None:
        gfg = FuncGuards(prog, gt)
        stores = [n for n in ast.walk(gt.node) if isinstance(n, ast.Assign) and any(
            isinstance(t, ast.Subscript) and isinstance(t.slice, ast.Constant)
            and t.slice.value == "concurrency" for t in n.targets)]
        tainted = set()
        for _ in range(4):
            for n in ast.walk(gt.node):
                if isinstance(n, ast.Assign):
                    txt = unparse(n.value)
                    hot = "'concurrency'" in txt.replace('"', "'") or any(
                        isinstance(x, ast.Name) and x.id in tainted for x in ast.walk(n.value))
                    if hot:
                        tainted |= {t.id for t in n.targets if isinstance(t, ast.Name)}
        for st in stores:
            inst = (gt.qualname, "store of the rendered concurrency")
            bad = None
            sites = [st]
            if isinstance(st.value, ast.Name):
                work_, seen_ = [st.value.id], set()
                while work_:
                    nm_ = work_.pop()
                    if nm_ in seen_:
                        continue
                    seen_.add(nm_)
                    for d_ in ast.walk(gt.node):
                        if isinstance(d_, ast.Assign) and any(
                                isinstance(t_, ast.Name) and t_.id == nm_ for t_ in d_.targets):
                            sites.append(d_)
                            if isinstance(d_.value, ast.Name):
                                work_.append(d_.value.id)
            all_alts = [alt for site in sites
                        for alt in expand_alternatives(gt, gfg, gfg.atoms(site))]
            for alt in all_alts:
                for a in alt:
                    if a[0] in ("truthy", "falsy") and isinstance(a[1], str) and (
                            a[1] in tainted or "'concurrency'" in a[1].replace('"', "'")):
                        bad = a
            if bad is None:
                res.holds(inst)
            else:
                res.violated(inst, _f(
                    "P8", gt, st, "truth test on the declared concurrency",
                    "whether the rendered task gets its concurrency depends on the truth of %s: "
                    "a declared concurrency of 0 is treated as 'no limit' instead of being "
                    "normalised to 1" % fmt_atoms([bad])[0]))
        if not stores:
            res.note("get_task: no store of 'concurrency' found")
    return res


# ====================================================================== P9
def _is_routes(e):
    return unparse(e).endswith(".routes")


def rule_P9(ctx):
    """Route identity: a route index is either the route the predecessor ran on or the index
    of the entry just appended to `routes`.  The engine never obtains a route index by looking
    through the existing entries: two different branches would then share one identity, and
    the executions of a split task on them could no longer be told apart (one is lost or
    counted for the other)."""
    res = RuleResult("P9", "route indices are handed out only by appending: len(routes) - 1 is "
                           "taken right after the append, and no index is obtained by searching "
                           "the existing routes")
    prog = ctx.prog
    n_alloc = 0
    for f in prog.all_functions():
        if f.module.short != "conducting":
            continue
        appends = [c for c in calls_in(f.node) if callee_name(c) == "append" and isinstance(
            c.func, ast.Attribute) and _is_routes(c.func.value)]
        for n in ast.walk(f.node):
            # len(routes) - 1
            if isinstance(n, ast.BinOp) and isinstance(n.op, ast.Sub) and isinstance(
                    n.left, ast.Call) and callee_name(n.left) == "len" and n.left.args and \
                    _is_routes(n.left.args[0]):
                n_alloc += 1
                stmt = n
                while not isinstance(stmt, ast.stmt):
                    stmt = stmt._parent
                inst = (f.qualname, norm_src(stmt))
                if isinstance(n.right, ast.Constant) and n.right.value == 1 and any(
                        _same_block_after(a, stmt) for a in appends):
                    res.holds(inst)
                else:
                    res.violated(inst, _f(
                        "P9", f, stmt, norm_src(stmt),
                        "a route index is computed from the length of routes without an append "
                        "of the new route just before it"))
            # searching the existing routes for an index
            searched = None
            if isinstance(n, ast.Call) and callee_name(n) == "index" and isinstance(
                    n.func, ast.Attribute) and _is_routes(n.func.value):
                searched = n
            elif isinstance(n, ast.Call) and callee_name(n) == "enumerate" and n.args and \
                    _is_routes(n.args[0]):
                searched = n
            if searched is not None:
                stmt = searched
                while not isinstance(stmt, ast.stmt):
                    stmt = stmt._parent
                res.violated((f.qualname, norm_src(stmt)), _f(
                    "P9", f, stmt, norm_src(stmt),
                    "%s obtains a route index by searching the existing routes: an existing "
                    "route is reused for a different branch, so executions on the two branches "
                    "share one identity" % f.name))
    if not n_alloc and not res.findings:
        raise AnalysisError("route allocation (append to routes, then len(routes) - 1) not found")
    return res


def _same_block_after(app_call, stmt):
    """The append statement and `stmt` sit in the same statement list, append first."""
    a = app_call
    while a is not None and not isinstance(a, ast.stmt):
        a = getattr(a, "_parent", None)
    par = getattr(stmt, "_parent", None)
    for fld in ("body", "orelse", "finalbody"):
        lst = getattr(par, fld, None)
        if isinstance(lst, list) and stmt in lst and a in lst:
            return lst.index(a) < lst.index(stmt)
    return False


# ====================================================================== P10
def rule_P10(ctx):
    """Terminal marking: when an event leaves the workflow in a completed status, the record the
    event was reported for is marked terminal under that condition alone.  The terminal records
    are what the workflow output is rendered from (and what a default rerun starts from), so an
    extra condition - e.g. on the task's own status - leaves a canceled or failed workflow
    with no terminal task and therefore without its output."""
    res = RuleResult("P10", "the reporting task's record is marked terminal whenever the "
                            "workflow ends up completed, under no further condition")
    prog = ctx.prog
    f = prog.function(UTS)
    fg = FuncGuards(prog, f)
    completed = status_set(ctx, "COMPLETED_STATUSES")
    sites = []
    for n in ast.walk(f.node):
        if isinstance(n, ast.Assign) and len(n.targets) == 1 and isinstance(
                n.targets[0], ast.Subscript) and isinstance(n.targets[0].slice, ast.Constant) \
                and n.targets[0].slice.value == "term" and isinstance(n.value, ast.Constant) \
                and n.value.value is True:
            sites.append(n)
    def reads_wf_status(txt):
        txt = str(txt)
        if "get_workflow_status" in txt or txt.endswith("workflow_state.status"):
            return True
        if txt.isidentifier():
            ds = _defs(f, txt)
            return bool(ds) and all("get_workflow_status" in unparse(d.value)
                                    or unparse(d.value).endswith("workflow_state.status")
                                    for d in ds)
        return False
    final = []
    for n in sites:
        atoms = _atoms_wo_validation(fg, n)
        wf = [a for a in atoms if a[0] == "in" and a[2] == completed
              and reads_wf_status(a[1])]
        if wf:
            final.append((n, atoms, wf))
            continue
        # the mark may sit under a disjunction (a verdict computed in a helper): what counts is
        # the alternative that holds whenever the workflow is completed - further alternatives
        # only mark in more situations
        for alt in expand_alternatives(f, fg, atoms):
            wf = [a for a in alt if a[0] == "in" and a[2] == completed
                  and reads_wf_status(a[1])]
            if wf:
                final.append((n, alt, wf))
                break
    if not final:
        res.violated(("final",), _f(
            "P10", f, f.node, "terminal mark on workflow completion",
            "update_task_state no longer marks the reporting task terminal when the workflow "
            "status is completed"))
        return res
    # a status *request* can complete the workflow as well (cancel or fail with nothing in
    # flight, resume of a paused workflow that has finished): that entry has to leave terminal
    # records behind too, or the output cannot be rendered from what was published
    rws = "conducting.WorkflowConductor.request_workflow_status"
    evs = effects_of(ctx, rws)
    from sa.effects import assigned_value, value_is_table_lookup
    completes = any(e.path == ("WS", "status") and assigned_value(e) is not None
                    and value_is_table_lookup(prog, e.func, assigned_value(e),
                                              "WORKFLOW_STATE_MACHINE_DATA") for e in evs)
    marks = [e for e in evs if e.path[-1:] == ("term",) and e.op == "setitem"]
    rf = prog.function(rws)
    if not completes:
        res.holds(("request",), "request_workflow_status never assigns a table-driven status")
    elif marks:
        res.holds(("request",), "terminal records are marked in %s" % marks[0].func.qualname)
    else:
        res.violated(("request",), _f(
            "P10", rf, rf.node, "no terminal mark when a request completes the workflow",
            "request_workflow_status can drive the workflow to a completed status through the "
            "workflow table (cancel / fail with nothing in flight, resume of a finished paused "
            "workflow) but marks no record terminal: the workflow output is then rendered "
            "without the published contexts (unresolved variables, status failed)"))
    for n, atoms, wf in final:
        inst = ("final", norm_src(n))
        extra = [a for a in atoms if a not in wf]
        # returns that precede it (retry hand-over) are part of the path, not extra conditions
        extra = [a for a in extra if not (a[0] in ("falsy", "or", "notin") and "retry" in str(a))]
        if not extra:
            res.holds(inst)
        else:
            res.violated(inst, _f(
                "P10", f, n, "terminal mark: " + norm_src(n),
                "the terminal mark carries an extra condition %s besides 'workflow status is "
                "completed': a workflow that completes (canceled / failed) on an event of a task "
                "that is itself not completed has no terminal record, and its output is not "
                "rendered from what was published" % fmt_atoms(extra)))
    return res


# ====================================================================== P11
def rule_P11(ctx):
    """A rerun puts its task back on offer: the staged entry that a failed with-items task keeps
    (flagged `completed`, so that get_staged_tasks hides it) loses that flag whenever a rerun
    of the task is accepted and the entry exists - under no further condition.  If the flag
    survives, the rerun is accepted, the workflow becomes resuming, and the task is never
    offered: non-terminal with nothing to do."""
    res = RuleResult("P11", "an accepted rerun clears the `completed` flag of the task's staged "
                            "entry whenever the entry exists (no further condition)")
    entry = "conducting.WorkflowConductor.request_workflow_rerun"
    pops = [e for e in effects_of(ctx, entry)
            if e.path[:2] == ("WS", "staged") and e.path[-1:] == ("completed",)
            and e.op in ("pop", "delitem", "setitem")]
    rf = ctx.prog.function(entry)
    if not pops:
        res.violated(("completed",), _f(
            "P11", rf, rf.node, "reset of the completed flag",
            "the rerun path never clears the `completed` flag of the staged entry of the task "
            "it reruns: a failed with-items task stays hidden from get_next_tasks"))
        return res
    completed = status_set(ctx, "COMPLETED_STATUSES")
    for e in pops:
        inst = (e.func.qualname, norm_src(e.node))
        extra = []
        for q, a in e.guards:
            if a[0] == "in" and a[2] == completed:
                continue  # the rerun precondition
            if a[0] in ("truthy", "isnot") and "staged" in untag(str(a[1])):
                continue  # the entry exists
            if a[0] == "falsy" and "invalid" in str(a[1]):
                continue  # request validation
            if a[0] == "in" and "completed" in str(a[1]):
                continue  # the flag is there
            if a[0] == "truthy" and str(a[1]).endswith(".has_items()"):
                continue  # the flag is only ever set for a task with items
            extra.append(a)
        if not extra:
            res.holds(inst)
        else:
            res.violated(inst, _f(
                "P11", e.func, e.node, "reset of the completed flag: " + norm_src(e.node),
                "the `completed` flag of the staged entry is cleared only under %s: when that "
                "does not hold the rerun is still accepted but the task is never offered"
                % fmt_atoms(extra)))
    return res


# ====================================================================== P12
def rule_P12(ctx):
    """A rerun un-terminates what follows from the rerun task: the loop over
    get_task_sequence(task, route) that clears the `term` flag of the descendants runs for every
    rerun task, whatever its kind.  If it is skipped for some tasks (e.g. behind an early return
    for with-items tasks), superseded records stay terminal: they feed the final context and a
    later default rerun picks them up again."""
    res = RuleResult("P12", "the rerun path clears the term flag of every descendant of the "
                            "rerun task under no condition other than the request's validity")
    prog = ctx.prog
    entry = "conducting.WorkflowConductor.request_workflow_rerun"
    completed = status_set(ctx, "COMPLETED_STATUSES")
    sites = []
    for f in prog.all_functions():
        if f.module.short != "conducting":
            continue
        for lp in ast.walk(f.node):
            if isinstance(lp, ast.For) and any(
                    callee_name(c) == "get_task_sequence" for c in ast.walk(lp.iter)
                    if isinstance(c, ast.Call)):
                pops = [c for c in calls_in(lp) if callee_name(c) == "pop" and c.args
                        and isinstance(c.args[0], ast.Constant) and c.args[0].value == "term"]
                if pops:
                    sites.append((f, lp, pops[0]))
    if not sites:
        rf = prog.function(entry)
        res.violated(("descendants",), _f(
            "P12", rf, rf.node, "term reset of the descendants",
            "the rerun path no longer clears the term flag of the tasks that follow the rerun "
            "task (loop over get_task_sequence)"))
        return res
    extras = []
    for f, lp, pop in sites:
        extra = []
        for a in chain_guards(ctx, f, lp):
            a = a[1]
            if a[0] == "in" and a[2] == completed:
                continue
            if a[0] == "falsy" and "invalid" in untag(str(a[1])):
                continue
            extra.append(a)
        extras.append(extra)
    # several copies of the loop on complementary branches cover every rerun task together
    covered = any(not x for x in extras) or any(
        len(x) == 1 and len(y) == 1 and _complementary(x[0], y[0])
        for i_, x in enumerate(extras) for y in extras[i_ + 1:])
    for (f, lp, pop), extra in zip(sites, extras):
        inst = (f.qualname, norm_src(lp))
        if not extra or covered:
            res.holds(inst)
        else:
            res.violated(inst, _f(
                "P12", f, lp, "term reset of the descendants: " + norm_src(lp),
                "the descendants of a rerun task lose their term flag only under %s: for the "
                "other rerun tasks superseded records stay terminal (they feed the final "
                "context and are picked up again by a later default rerun)" % fmt_atoms(extra)))
    return res


# ====================================================================== P13
def rule_P13(ctx):
    """A status request reaches every active task: the task machine is driven for each of them
    in a plain loop.  Driving it from inside any() / all() / next() stops at the first task for
    which the call returns something true (false), so the remaining active tasks never see the
    pause / cancel request - their actions keep the workflow 'pausing' for ever."""
    res = RuleResult("P13", "the request event is pushed to every active task: the task "
                            "machine is not driven from a short-circuiting any()/all()/next()")
    prog = ctx.prog
    rws = prog.function("conducting.WorkflowConductor.request_workflow_status")
    cls = prog.cls("conducting.WorkflowConductor")

    def drives_machine(node, depth=0):
        for c in ast.walk(node):
            if not isinstance(c, ast.Call):
                continue
            if callee_name(c) == "process_event" and "TaskStateMachine" in unparse(c.func):
                return True
            m = prog.lookup_method(cls, callee_name(c) or "")
            if m is not None and depth < 3 and isinstance(c.func, ast.Attribute) and isinstance(
                    c.func.value, ast.Name) and c.func.value.id in ("self", "cls"):
                if drives_machine(m.node, depth + 1):
                    return True
        return False

    scope = [rws] + [m for m in cls.methods.values()
                     if m.name.startswith("_") and not m.name.startswith("__")]
    pushes = 0
    for f in scope:
        for n in ast.walk(f.node):
            if isinstance(n, ast.Call) and isinstance(n.func, ast.Name) and n.func.id in (
                    "any", "all", "next") and n.args and isinstance(
                    n.args[0], (ast.GeneratorExp, ast.ListComp)) and drives_machine(n.args[0].elt):
                short = isinstance(n.args[0], ast.GeneratorExp)
                inst = (f.qualname, norm_src(n))
                if short:
                    res.violated(inst, _f(
                        "P13", f, n, "short-circuiting broadcast: " + norm_src(n),
                        "%s() over a generator drives the task machine: it stops at the first "
                        "task for which the call is true/false, the other active tasks never "
                        "receive the request" % n.func.id))
                else:
                    res.holds(inst, "list comprehension: evaluated for every task")
                pushes += 1
            if isinstance(n, ast.ListComp) and drives_machine(n.elt) and not (
                    isinstance(getattr(n, "_parent", None), ast.Call)
                    and getattr(n._parent.func, "id", "") in ("any", "all", "next")):
                pushes += 1
                res.holds((f.qualname, norm_src(n)), "list comprehension: evaluated for every task")
            if isinstance(n, ast.For) and drives_machine(ast.Module(body=n.body, type_ignores=[])):
                if f is rws or prog.is_dead_helper(f) is False:
                    pushes += 1
                    res.holds((f.qualname, norm_src(n)), "plain loop")
    if not pushes:
        raise AnalysisError("request_workflow_status no longer pushes the event to the active "
                            "tasks")
    return res

"""Property -> rules registry (what each claimed check runs), floors, controls."""

from sa import tables as T
from sa import controls as K
from sa import effects as E
from sa import excs as X
from sa import paths as P
from sa import optional as OPT
from sa import speccov as SC
from sa import agree as G
from sa import order as OR
from sa import purity as PU
from sa import requests as RQ
from sa import shape as SH


def _t(rule_fn, **kw):
    def run(ctx):
        res = rule_fn(ctx.facts, **kw)
        res.scoped = bool(kw)
        return res
    run.__name__ = rule_fn.__name__
    run.table_rule = (rule_fn, kw)
    return run


A1 = ("A1: the provider reports the start of every action it accepted before it issues a status "
      "request (an in-flight action unknown to the conductor cannot be seen by any conductor)")
A2 = ("A2: the provider never requests the status 'succeeded' itself (workflow_succeeded cells are "
      "outside the quantifier of the properties)")
A_SPEC = ("the vocabulary IN_FLIGHT = {requested, scheduled, delayed, running, resuming, pausing, "
          "canceling} (an action is at the provider) is specification, not code")
A_AST = "CPython's ast module parses /repo exactly as the interpreter does"

# Lower bounds on the number of instances each rule enumerated on the tree the rules were
# confirmed against by hand.  Adding code never trips them; a rule that silently stops seeing
# its subject does.
FLOORS = {
    "T0": 300, "T1": 30, "T3a": 100, "T3b": 40, "T3c": 30, "T3d": 8, "T3e": 5, "T3f": 6,
    "T3g": 40, "T3a-req": 40, "T4a": 50, "T4b": 5, "T4c": 50, "T4d": 50, "T4e": 3, "T4f": 4,
    "T4g": 10, "T5": 8, "T3h": 50,
    # effect / ownership rules (write sites confirmed by reading conducting.py / machines.py)
    "F1": 10, "F2": 10, "F3": 10, "F4": 8, "F5": 25, "F6": 2, "F7": 1, "F9": 200, "F10": 1, "F11": 1, "F8": 8, "O1": 30,
    "O2": 6, "O3": 20, "S1": 20,
    "X1": 5, "X2": 40, "X3": 6, "X4": 1,
    "P1": 3, "P2": 2, "P3": 5, "P4": 1, "P5": 2, "P6": 9, "P7": 5, "P8": 1, "P9": 1, "P10": 1, "P11": 1, "P12": 1, "P13": 1,
    "E7": 30, "U1": 5, "S2": 12, "S3": 15, "G1": 3, "G2": 5, "G3": 8, "G4": 5, "G5": 1, "S1b": 6, "M1": 1,
    "N1": 25, "N2": 8, "O4": 2, "O5": 4, "O6": 1, "O7": 2, "V1": 10, "V2": 1, "S4": 1, "S5": 2, "S6": 10, "S7": 4, "S8": 1, "S1c": 12,
    "V3": 3, "G6": 1, "J1": 2, "P14": 1, "F12": 1, "G7": 1, "M3": 1, "P15": 1,
}

PROPERTIES = {}


def prop(pid, **kw):
    PROPERTIES[pid] = kw


TABLE_MODS = ["machines", "statuses", "events", "conducting"]

prop(
    "C02",
    anchor_modules=TABLE_MODS,
    rules=[_t(T.rule_T0), _t(T.rule_T1), _t(T.rule_T3a), _t(T.rule_T3c), _t(T.rule_T3d),
           _t(T.rule_T3e), _t(T.rule_T3g), _t(T.rule_T3a_req), _t(T.rule_T5), _t(T.rule_T4a),
           E.rule_F4, E.rule_F7, G.rule_G2, X.rule_X3],
    controls=[K.ctl_wf_inflight_to_resting, K.ctl_wf_drop_failed_cell, K.ctl_drop_join_check],
    exhaustive=True,
    explanation=(
        "Decides, cell by cell, the typestate clauses of C02 on the workflow transition table: "
        "every (row, generable event) pair is enumerated, the meaning of each generated event "
        "name is the set of abstract engine states under which the contextualiser produces it "
        "(complete decision tree of add_context_to_task_event / add_context_to_workflow_event), "
        "and the oracles require: resting statuses only on events generated with nothing in "
        "flight; pausing/canceling only with something in flight; succeeded only on clean "
        "completion; an unhandled failure / fail command maps to failed in every row where it "
        "can be looked up; requests are total; a table-driven completion is followed by the "
        "unreachable-join check and its failed verdict is not overwritten afterwards (F7); the "
        "status predicates the contextualisers rest on look at latest records only (G2). NOT "
        "decided: that every reachable combination of "
        "task statuses over all histories is one of the abstract states (the abstraction is a "
        "superset), and per-history claims such as 'every task failure was handled'."),
    assumptions=[A1, A2, A_SPEC, A_AST],
)

prop(
    "C03",
    anchor_modules=TABLE_MODS,
    rules=[_t(T.rule_T0), _t(T.rule_T1), _t(T.rule_T3b), _t(T.rule_T3c), _t(T.rule_T3f),
           _t(T.rule_T3g), _t(T.rule_T4g), _t(T.rule_T4d), P.rule_P1, P.rule_P2, P.rule_P11,
           G.rule_G1, SH.rule_P15],
    controls=[K.ctl_wf_drop_dormant_cell, K.ctl_skip_transitions_when_canceling],
    exhaustive=True,
    explanation=(
        "Decides the table clauses of 'quiescence implies a resting status': in every active "
        "workflow row, every event that can be generated with no action in flight and no work on "
        "offer leads to paused/canceled/succeeded/failed (T3b); pausing/canceling are never kept "
        "without something in flight (T3c); no offering status is a resting one (T3f); internally "
        "generated event names are always accepted (T1) and the task table is closed (T0); a "
        "with-items task does not stay in flight when its last item ended (T4g, T4d); the "
        "transitions of every completed task are evaluated under no further condition, so "
        "a rerun of a canceled or failed workflow finds the successors staged (P15). NOT "
        "decided: stuck states that arise from task-level combinations over histories (e.g. a "
        "ready staged entry that renders zero actions) and rerun continuations."),
    assumptions=[A1, A_SPEC, A_AST],
)

prop(
    "C09",
    anchor_modules=TABLE_MODS,
    rules=[_t(T.rule_T3a, rows=("pausing", "paused")), _t(T.rule_T3b, rows=("pausing",)),
           _t(T.rule_T3c, rows=("pausing", "paused")), _t(T.rule_T3d, rows=("pausing", "paused")),
           _t(T.rule_T3g, rows=("running", "pausing", "paused", "resuming")),
           _t(T.rule_T3h, rows=("pausing",)), _t(T.rule_T3e),
           _t(T.rule_T3f), _t(T.rule_T4f), _t(T.rule_T4a), P.rule_P2, P.rule_P10, P.rule_P13,
           E.rule_F7, SH.rule_G7],
    controls=[K.ctl_wf_drop_failed_cell, K.ctl_term_only_if_task_completed,
              K.ctl_stale_retry_delay],
    exhaustive=True,
    explanation=(
        "Decides the structural clauses of pause/resume: pausing and paused are not offering "
        "statuses; in row pausing every event generated with nothing in flight rests the "
        "workflow and every event with something in flight keeps it pausing; a failure or fail "
        "command that lands after the pause took effect is not lost (row paused); resume "
        "completes a workflow only when nothing is in flight, staged or paused; a running "
        "with-items task receives the pause; a completion - by a task event or by the resume "
        "request itself - leaves a terminal record behind so that the output is rendered as in "
        "the run without a pause (P10; the request path is known finding D20); what is offered "
        "together after a resume is rendered entry by entry - no value computed for one staged "
        "entry (its retry delay, say) is carried into the rendering of the next (G7). NOT decided: the "
        "twin-run relation (same final "
        "status, tasks, errors, output as the unpaused history) at every insertion point."),
    assumptions=[A1, A_SPEC, A_AST],
)

prop(
    "C10",
    anchor_modules=TABLE_MODS,
    rules=[_t(T.rule_T3a, rows=("canceling",)), _t(T.rule_T3b, rows=("canceling",)),
           _t(T.rule_T3c, rows=("canceling",)), _t(T.rule_T3e), _t(T.rule_T3f),
           _t(T.rule_T3g), _t(T.rule_T3h, rows=("canceling",)), _t(T.rule_T4a), _t(T.rule_T4f),
           P.rule_P2, P.rule_P7, P.rule_P10, P.rule_P13, E.rule_F10, G.rule_G1, G.rule_G2,
           P.rule_P14, SH.rule_P15],
    controls=[K.ctl_wf_canceling_to_succeeded, K.ctl_predicate_over_raw_sequence,
              K.ctl_term_only_if_task_completed, K.ctl_override_on_canceled,
              K.ctl_skip_transitions_when_canceling],
    exhaustive=True,
    explanation=(
        "Decides the table clauses of cancellation: canceling/canceled are not offering statuses "
        "and no table path leads from them to one (closure); in row canceling an event with "
        "something in flight keeps canceling, with nothing in flight ends canceled, and nothing "
        "maps to succeeded/running/paused; cancel is accepted from every non-terminal row; "
        "with-items tasks receive the cancel and never complete with an item in flight; 'a task "
        "is canceled / canceling' is judged on the latest record of each task (G2); the record "
        "whose event completes the workflow is marked terminal under that condition alone, so "
        "a canceled workflow keeps a terminal record to render its output from (P10); the "
        "unreachable-join override (status := failed) is guarded, at every site, by a condition "
        "that excludes a workflow the table has just canceled (F10); while canceling, reports "
        "are neither dropped selectively (P14) nor are a completed task's transitions - and "
        "with them its publishes and its terminal mark - skipped (P15). NOT "
        "decided: 'not turned into failed merely because the cancellation kept joins from "
        "running' (needs the causal reason of an unreachable join)."),
    assumptions=[A1, A_SPEC, A_AST],
)

prop(
    "C12",
    anchor_modules=TABLE_MODS,
    rules=[_t(T.rule_T4a), _t(T.rule_T4b), _t(T.rule_T4c), _t(T.rule_T4d), _t(T.rule_T4f),
           _t(T.rule_T4g), G.rule_G1, P.rule_P8],
    controls=[K.ctl_task_active_completes, K.ctl_concurrency_not_clamped],
    exhaustive=True,
    explanation=(
        "Decides the task-table clauses of with-items: the task never completes while another "
        "item is in flight; it succeeds only on a succeeded item with every other item "
        "succeeded; a failed/canceled item among dormant items never yields success; a "
        "pausing/canceling task never returns to running; the task reacts to every pause/cancel "
        "request form; the last item ending always moves the task out of flight; in the window "
        "computation a rendered concurrency <= 0 is normalised to 1 (decided at every sign case "
        "of the comparison constants), items are offered only while availability > 0 and the "
        "not-run items are cut to the first `availability` (P8). NOT decided: the counts "
        "themselves (all n offered, at most k in flight across calls), which are arithmetic over "
        "run-time values."),
    assumptions=[A_SPEC, A_AST],
)


def _e7_items(ctx):
    r = OPT.rule_E7(ctx, functions=("conducting.WorkflowConductor.update_task_state",
                                     "machines.TaskStateMachine.add_context_to_task_item_event",
                                     "machines.TaskStateMachine.add_context_to_workflow_event"),
                    only_keys=("items",))
    r.scoped = True
    return r


ENGINE_MODS = ["conducting", "machines", "utils.dictionary", "utils.jsonify", "utils.context"]
A_ABS = ("the abstract interpretation (sa.absint) over-approximates aliasing: one abstract object "
         "per allocation site and call site, summary of merge_dicts verified against its body on "
         "every run; foreign code (ujson, yaql, jinja2, networkx) is assumed not to retain or "
         "mutate its arguments except as summarised (deepcopy returns a deep copy)")

prop(
    "C04",
    anchor_modules=TABLE_MODS,
    rules=[_t(T.rule_T0), _t(T.rule_T1), _t(T.rule_T3f), E.rule_F4, E.rule_F6, P.rule_P2,
           RQ.rule_F9, G.rule_G1, P.rule_P14, P.rule_F12],
    controls=[K.ctl_unvalidated_status_write, K.ctl_rerun_write_before_reject,
              K.ctl_silent_noop_request, K.ctl_swallow_report, K.ctl_fail_on_machine_error],
    explanation=(
        "Decides the structural clauses of 'terminal statuses are final': the terminal rows of "
        "the workflow table have no outgoing cell except succeeded->failed on an explicit failed "
        "request, no table path leads from a terminal status to a non-terminal one, and no "
        "offering status is terminal (T3f); a late completion report only generates accepted "
        "event names, which terminal rows ignore (T0/T1); the workflow status has no other "
        "writer than the table, the validated setter, the unreachable-join override and rerun "
        "(F4, every write site classified by value origin and guards); a status request or rerun "
        "request that is rejected has not written anything before the rejecting raise (F6, all "
        "paths of the two request functions incl. callees); the accept/reject verdict at the end of "
        "request_workflow_status, evaluated for all 16^3 (requested, before, after) status "
        "triples, rejects every request that changed nothing except the idempotent and the two "
        "documented in-progress ones, and never raises after a change (F9); whether an item of a "
        "with-items task is still in flight - which decides if its staged entry is kept for the "
        "late reports - is judged against the whole ACTIVE category (G1); update_task_state drops "
        "no report - every path raises or reaches the task state machine, so the event "
        "sequences the table rules quantify over are the ones tasks really see (P14) - and "
        "requests a workflow status on its own only while processing a task completion the "
        "machine has just accepted, never from an error handler around the machine or for a "
        "report that changed nothing (F12). NOT decided: every suffix of events "
        "after termination at the level of histories."),
    assumptions=[A1, A_SPEC, A_ABS, A_AST],
)

prop(
    "C05",
    anchor_modules=ENGINE_MODS + ["graphing"],
    rules=[E.rule_S1, G.rule_S1b, G.rule_S1c, E.rule_O1, E.rule_O3, E.rule_F5, E.rule_F8],
    controls=[K.ctl_share_record_lists, K.ctl_serialize_no_copy, K.ctl_drop_restore_of_attr,
              K.ctl_graph_restore_without_copy],
    explanation=(
        "Decides the structural core of 'persist/restore is unobservable': every attribute of "
        "WorkflowState / WorkflowConductor that the engine writes at run time is read by "
        "serialize() and restored by deserialize(), with matching keys (S1); no object has two "
        "persistent homes, i.e. nothing stored into the state is a reference to something "
        "already stored elsewhere in it and mutated in place - JSON round-tripping breaks "
        "exactly that sharing (O1); serialize()/deserialize() and the getters hand out and take "
        "in deep copies only (O3); serialize() and the other queries write nothing (F5); the "
        "composed graph is written only by the composer (F8); deserialize() of state, conductor "
        "and graph wraps every part of the document it keeps in a deep copy (S1c). NOT decided: equality of all "
        "continuations of a live and a restored conductor; fidelity of ujson / networkx round "
        "trips for particular values."),
    assumptions=[A_ABS, A_AST],
)

prop(
    "C06",
    anchor_modules=ENGINE_MODS,
    rules=[E.rule_O2, E.rule_F2, G.rule_M1, P.rule_P3, P.rule_P6, PU.rule_V1, PU.rule_O7,
           SH.rule_M3],
    controls=[K.ctl_drop_ctx_copy, K.ctl_merge_skips_none, K.ctl_shared_transition_ctx],
    explanation=(
        "Decides one clause: isolation of the context store. A stored context delta is never "
        "written after it was appended, and no task context is built by mutating a stored delta "
        "(every merge_dicts call site reached from the API has a first argument that owns "
        "everything it references; merge_dicts itself only mutates its first argument). If this "
        "fails, a value published on one branch becomes visible to tasks that are not its "
        "descendants. Every variable published on a taken transition lands in the delta "
        "whatever its value: finalize_context does not branch on rendered or inherited values "
        "(V1) and merge_dicts overlays by key, not by value (O7) - a publish that is skipped "
        "because the value 'did not change' loses the supersession the property describes; a "
        "retried attempt is re-staged with the record's own context index list (P6). NOT "
        "decided: causal ancestry, supersession and arrival-order semantics of "
        "the merged index lists (behavioural, over histories)."),
    assumptions=[A_ABS, A_AST],
)

prop(
    "C11",
    anchor_modules=ENGINE_MODS + ["expressions.base", "expressions.yql", "expressions.jinja",
                                  "specs.native.v1.models"],
    rules=[X.rule_X1, X.rule_X2, X.rule_X3, X.rule_X4, _t(T.rule_T3g), P.rule_P2],
    controls=[K.ctl_narrow_next_tasks_handler, K.ctl_unwrap_criteria_try,
              K.ctl_unwrap_evaluator_try, K.ctl_handler_without_fail],
    explanation=(
        "Decides containment lexically, which is what the property is: for every call of "
        "expressions.base.evaluate and every raise that checks an evaluated value (15 + 4 sites "
        "today) and every call chain from the conductor API (get_next_tasks, update_task_state, "
        "request_workflow_status, render_workflow_output, request_workflow_rerun, the lazy "
        "workflow_state initialiser) to it, some frame's try catches the raised class and does "
        "not re-raise (X2); every such handler and every consumer of an error list returned by "
        "the rendering helpers both records the error and requests 'failed', and get_next_tasks "
        "returns nothing once it saw a rendering error (X3); inside both evaluators every call "
        "into the template engine is wrapped by a catch-all that raises the language's "
        "EvaluationException, and the dispatcher adds no raw failure (X1, assumed by X2). NOT "
        "decided: that yaql/jinja2 map every kind of failure to an exception at all (foreign "
        "code); X1 bounds it by requiring the catch-all conversion."),
    assumptions=[A_ABS, A_AST, "call edges are those resolved by the abstract interpretation from "
                 "the API entry points (printed in the evidence); evaluators are reached only "
                 "through expressions.base.evaluate"],
)

prop(
    "C01",
    anchor_modules=ENGINE_MODS,
    rules=[P.rule_P1, P.rule_P2, P.rule_P3, P.rule_P4, P.rule_P9, PU.rule_V2, G.rule_G3,
           P.rule_P14, SH.rule_P15, SH.rule_G7, SH.rule_M3],
    controls=[K.ctl_stale_retry_delay, K.ctl_shared_transition_ctx, K.ctl_offer_completed_entries, K.ctl_stage_without_criteria,
              K.ctl_keep_started_task_staged, K.ctl_route_without_append,
              K.ctl_falsy_result_dropped, K.ctl_swallow_report,
              K.ctl_skip_transitions_when_canceling],
    explanation=(
        "Decides the necessary structural clauses of 'every execution is justified, exactly "
        "once': every task get_next_tasks returns is built by get_task(id, route) of an entry "
        "drawn, by filtering only, from the staged list with the ready / not-completed filter, "
        "and the status machine's notion of 'work left' is that same call (P1); the offer loop "
        "is gated by 'status in RUNNING_STATUSES or run-on-fail remediation' (P2); every "
        "reachable call of add_staged_task, and every in-place extension of a staged entry, is "
        "a start task, a retry re-stage, a rerun, or control-dependent on all(criteria) of that "
        "very transition evaluated against make_task_context(record, task_result) (P3); a "
        "started task is removed from staging before the task machine runs and a completed one "
        "afterwards, with no extra condition (P4); a new route index is only ever the index of "
        "the entry just appended to routes, never one found by searching the existing routes, "
        "so two branches cannot come to share one identity (P9); the result the criteria are "
        "evaluated on is the reported result itself on every path of make_task_result for a "
        "task without items (V2); update_task_state drops no report selectively (every path raises, "
        "ignores every report alike, or reaches the task state machine: P14) and evaluates all "
        "the outgoing transitions of every task that completes, under no further condition "
        "(P15 - skipping them loses the successors a rerun continues from); no value computed for "
        "one entry or transition is carried into the next by a loop variable that is only set "
        "conditionally (G7) or by a context object that the first transition merges into (M3). "
        "NOT decided: the multiset "
        "equality between executed tasks and what the definition prescribes over all graph "
        "shapes, outcome assignments and completion orders; cycle re-entry."),
    assumptions=[A_ABS, A_AST],
)

prop(
    "C07",
    anchor_modules=ENGINE_MODS + ["composers.native", "graphing"],
    rules=[P.rule_P5, P.rule_P7, E.rule_F7, _e7_items, _t(T.rule_T3b),
           _t(T.rule_T3g, rows=("paused",)), E.rule_O3],
    controls=[K.ctl_join_always_ready, K.ctl_join_threshold, K.ctl_drop_join_check],
    explanation=(
        "Decides the structural clauses of the join barrier: the ready flag of a staged entry is "
        "recomputed as 'inbound criteria == SATISFIED' after every arrival (new entry or "
        "extension of an existing one) and unreachable barriers are exactly the staged barrier "
        "entries that are not ready with NOT_SATISFIED criteria (P5); SATISFIED is returned only "
        "under 'number of distinct inbound tasks whose recorded transition decision is true, on "
        "the same route, >= requirement' with requirement = all inbound tasks for '*' else the "
        "graph node's barrier, and the composer sets a barrier only for join tasks ('*' iff "
        "join: all) (P7); every function that assigns a workflow status from the table and can "
        "reach succeeded runs the unreachable-join check afterwards (F7); a resume request on a "
        "paused workflow with nothing in flight and nothing on offer completes it (so that the "
        "check runs) instead of leaving it resuming for ever with an unready join staged (T3g, "
        "row paused). NOT decided: counting "
        "per arrival order over histories; 'once per satisfaction' for join: N when further "
        "branches arrive after the join started (the engine has no construct for it)."),
    assumptions=[A_ABS, A_AST],
)

prop(
    "C13",
    anchor_modules=ENGINE_MODS,
    rules=[P.rule_P6, _t(T.rule_T4e), E.rule_O1, SH.rule_G7],
    controls=[K.ctl_retry_off_by_one, K.ctl_stale_retry_delay],
    explanation=(
        "Decides the structural clauses of retry: the retry decision (an if whose test calls "
        "_evaluate_task_retry) precedes, in update_task_state, every write of transition "
        "decisions / outgoing contexts / context deltas and the workflow event; its true branch "
        "leaves the function; the transition block's guards imply the decision's guards; inside "
        "_evaluate_task_retry every 'return True' is dominated by 'tally < count' (tally and "
        "count being reads of the record's retry entry); the tally increment and the re-stage "
        "with the retry record are in the same 'new status == retrying' block; the retry delay "
        "reaches the offer; retrying is entered only from a completed status by the retry "
        "command (T4e). NOT decided: the bound n+1 per visit across loops and reruns."),
    assumptions=[A_ABS, A_AST],
)

def _e7_rerun(ctx):
    r = OPT.rule_E7(ctx, functions=("conducting.WorkflowConductor._request_task_rerun",
                                     "conducting.WorkflowConductor.request_workflow_rerun",
                                     "conducting.WorkflowConductor._collapse_task_rerun_requests"))
    r.scoped = True
    return r


def _f6_rerun(ctx):
    r = E.rule_F6(ctx, entries=("conducting.WorkflowConductor.request_workflow_rerun",))
    r.scoped = True
    return r


prop(
    "C15",
    anchor_modules=TABLE_MODS + ["specs.base", "specs.native.v1.models", "composers.native"],
    rules=[_t(T.rule_T0), _t(T.rule_T1), _t(T.rule_T5), OPT.rule_E7, SC.rule_S2, SC.rule_S3,
           SC.rule_S4, SC.rule_S5, SC.rule_S6, SC.rule_S7, SC.rule_S8, OPT.rule_U1, X.rule_X4],
    controls=[K.ctl_unguarded_staged_deref, K.ctl_unguarded_task_name, K.ctl_drop_detector,
              K.ctl_untracked_property, K.ctl_validate_prefilter,
              K.ctl_has_expressions_ignores_blocks],
    explanation=(
        "Decides structural clauses on both sides. Soundness of acceptance: no internal error on "
        "engine-generated events - every generated event name is an accepted one and both tables "
        "are closed (T0, T1), event dispatch is total (T5), and values that may be absent "
        "(results of accessors with a None path, optional keys of staged entries and records) "
        "are dereferenced only under a presence test or at one of the reviewed sites whose "
        "invariant is written down in reviewed_derefs.json (E7). Completeness of inspection: "
        "inspect() runs and reports all four inspections, inspect_semantics runs every detect_* "
        "method, every engine command name is reserved (S2); every spec property that can carry "
        "an expression is in the class's _context_evaluation_sequence (S3); a task name read from "
        "a transition reaches a KeyError-raising accessor only under a has_task / membership "
        "guard, so inspection does not crash on the fault it must report (U1); the "
        "language-neutral dispatch of expressions.base hands every string to the evaluators' own "
        "has_expressions and never filters by the text itself (S6), and each evaluator's "
        "has_expressions consults every recogniser its validate / evaluate apply to the text "
        "(S7). NOT decided: "
        "execution of every accepted definition under every history; completeness of the "
        "regex-based variable extraction for every documented reference form."),
    assumptions=[A_AST, "E7 trusts the reviewed table (9 entries, each with its invariant)"],
)

prop(
    "C17",
    anchor_modules=ENGINE_MODS,
    rules=[_f6_rerun, _e7_rerun, E.rule_F4, E.rule_F11, P.rule_P11, P.rule_P12, G.rule_G1,
           G.rule_G2, G.rule_G3, G.rule_G4, G.rule_G5,
           _t(T.rule_T3d, rows=("resuming",)), _t(T.rule_T3b, rows=("resuming",))],
    controls=[K.ctl_rerun_write_before_reject, K.ctl_unguarded_staged_deref,
              K.ctl_predicate_over_raw_sequence, K.ctl_mixed_identity,
              K.ctl_append_before_membership_test],
    explanation=(
        "Decides the structural clauses of rerun: the two rejections of request_workflow_rerun "
        "(workflow not completed; unknown task execution) precede every persistent write on "
        "every path, so a rejected rerun has no effect (F6); the staged entry and records used "
        "while preparing a rerun are dereferenced only when present (E7); the workflow status is "
        "forced to resuming only in the rerun path, under the completed-status precondition "
        "(F4); the status predicates the workflow machine consults after a rerun look at the "
        "latest record of each task only, so superseded (failed / canceled) records do not "
        "count (G2); the descendant search that resets term flags and collapses rerun requests "
        "reads every (id, route) pair from one record (G3) and tests 'already visited' before it "
        "records a descendant, so it does not stop at the direct children (G4); the status is "
        "forced to resuming only when the request selected something to rerun or continue (F11, "
        "known finding D22); the descendants of every rerun task lose their term flag under no "
        "further condition (P12), the staged entry of the rerun task is un-completed (P11), and "
        "'has a taken transition' is read from the values of the decision map, not from its "
        "keys (G5). NOT decided: "
        "'re-executes exactly "
        "the requested tasks', convergence to the clean "
        "outcome, 'never stuck after an accepted rerun' (twin runs over histories)."),
    assumptions=[A_ABS, A_AST],
)

prop(
    "C14",
    anchor_modules=["composers.native", "graphing", "specs.native.v1.models"],
    rules=[OR.rule_N2, P.rule_P7, G.rule_S1c, SH.rule_V3, SH.rule_G6],
    controls=[K.ctl_unsorted_start_tasks, K.ctl_join_threshold, K.ctl_graph_restore_without_copy,
              K.ctl_join_by_truth, K.ctl_conditional_edge_lookup],
    explanation=(
        "Decides one clause: the composed graph does not depend on the declaration order of "
        "tasks, and the barrier attribute is composed exactly for join tasks ('*' iff join: all, "
        "else the declared count, stored unchanged by the graph) (P7). Every TaskMappingSpec method the composer uses (transitively) either does not "
        "iterate the task mapping or returns a value that is sorted by task name / is a boolean "
        "or a count, and the composer iterates only those sorted results and its own queue; the "
        "graph is restored as a directed multigraph (call fact) from a deep copy of the persisted "
        "document, so nothing of the restored graph stays shared with the document (S1c). Two "
        "necessary conditions of 'exactly one edge per triple, barriers exactly where join is "
        "declared': on the composition path the presence of join is decided against None and "
        "never by the truth of the declared value, which may be 0 (V3); an edge is added only "
        "after a look-up that reflects the graph at that moment - a call on the graph in the "
        "same iteration, unconditionally, or an index kept current where the edge is added "
        "(G6). NOT "
        "decided: exactness of nodes "
        "and edges against the definition over all shapes (the split-tracking pruning of the "
        "composer is an algorithm whose correctness is semantic), fidelity of networkx edge keys."),
    assumptions=[A_AST],
)

prop(
    "C16",
    anchor_modules=["expressions.base", "expressions.yql", "expressions.jinja",
                    "expressions.functions.common", "conducting", "specs.native.v1.models"],
    rules=[PU.rule_O4, PU.rule_O5, PU.rule_O6, PU.rule_O7, PU.rule_V1, PU.rule_V2, E.rule_O2,
           E.rule_F2, SH.rule_J1],
    controls=[K.ctl_persist_internal_ctx, K.ctl_ctx_unfiltered, K.ctl_yaql_raw_context,
              K.ctl_merge_skips_none, K.ctl_input_default_on_falsy, K.ctl_render_every_string],
    explanation=(
        "Decides the purity and hiding clauses: in every Evaluator.contextualize the caller's "
        "context reaches the template engine only through a converting / copying call (O4); no "
        "value that may carry double-underscore keys (__state, __current_task, __current_item) "
        "is appended to the persisted contexts or stored as the workflow output, and "
        "finalize_context strips such names from the outgoing context (O5); ctx() raises for a "
        "double-underscore key and filters them from the unkeyed form (O6); merge_dicts, through "
        "which every context, input and publish passes, decides what to copy by key presence, "
        "dict-ness and the overwrite flag only, never by the value (O7); the renderers of input, "
        "vars, publish and output never branch on a rendered value, a runtime input value or a "
        "value read from the context (V1), and make_task_result hands a reported result through "
        "untested (V2); a whole-text template render of the Jinja evaluator happens only when a "
        "recogniser found a block or a masked raw block in the text, so a plain string result "
        "is never pushed through a second render (J1). NOT decided: "
        "preservation of arbitrary JSON values through ujson, YAQL conversion and string "
        "interpolation (run-time values)."),
    assumptions=[A_ABS, A_AST],
)

prop(
    "C19",
    anchor_modules=ENGINE_MODS + ["composers.native", "specs.base", "specs.native.v1.models",
                                  "graphing", "expressions.base"],
    rules=[OR.rule_N1, E.rule_F5, E.rule_O2, OR.rule_N2, X.rule_X3],
    controls=[K.ctl_partial_sort_of_set, K.ctl_drop_ctx_copy],
    explanation=(
        "Decides the structural clauses of determinism and query purity: every collection "
        "derived from a set (33 set-constructing expressions today) reaches only "
        "order-insensitive consumers or a sort whose key determines the element - no indexing, "
        "formatting, list equality, queue insertion, state/graph write or API return in hash "
        "order (N1); offers are returned sorted by (id, route); the graph does not depend on "
        "declaration order (N2); get_next_tasks and every other query write nothing but the "
        "documented item-list initialisation and the error path, and mutate nothing through a "
        "borrowed reference (F5, O2). NOT decided: determinism of foreign libraries (yaql, "
        "jinja2, networkx, ujson)."),
    assumptions=[A_ABS, A_AST, "the order analysis treats boolean accumulation in a loop over an "
                 "unordered collection as order-insensitive (exists/forall idiom)"],
)

prop(
    "C18",
    anchor_modules=ENGINE_MODS,
    rules=[E.rule_F1, E.rule_F2, E.rule_F3, _t(T.rule_T4e), E.rule_O1, E.rule_O2],
    controls=[K.ctl_sequence_insert, K.ctl_share_record_lists, K.ctl_drop_ctx_copy],
    explanation=(
        "Decides the property at the level of code shape: the history containers (sequence, "
        "contexts, routes) only grow - every write site that reaches them is an append (F1); "
        "the frozen fields of a stored record (id, route, prev, ctxs.in) and stored context "
        "deltas have no writer and no alias that is mutated (F2, O1, O2); transition decisions "
        "and outgoing contexts are written only under 'status changed to a completed status', "
        "task statuses only by the task machine from its table, the term flag only set to True "
        "and only reset by rerun (F3); finished task rows have no outgoing cell except the "
        "retry command (T4e). NOT decided: nothing structural remains; the foreign ujson copy is "
        "trusted."),
    assumptions=[A_ABS, A_AST],
)

# ---------------------------------------------------------------------- manifest metadata
NOT_APPLICABLE = {
    "C08": "quantifies over all linearisations of completion reports and compares terminal "
           "states of whole runs; no clause of it is a fact about the shape of the code (the only "
           "ordering construct, the sort of offered tasks, is claimed under C19), so static "
           "analysis has nothing sound to decide here",
    "C20": "equivalence of shorthand and long notations is the meaning of a regex-driven value "
           "grammar (utils/parameters.py) over run-time strings; the one structural candidate "
           "(all consumers of 'do' normalise the string form identically) would false-alarm on "
           "finalize_context, so no sound static rule exists",
}

PENDING = {}

TECHNIQUE = {
    "C14": "order-taint / return-shape analysis of the task-mapping accessors the composer uses",
    "C16": "dataflow from the evaluation context to the template engine; internal-name taint to "
           "persistence sinks; guard analysis of ctx()",
    "C19": "order-taint analysis from every set-constructing expression to order-sensitive "
           "sinks + query effect analysis",
    "C15": "typestate closure of the event tables + optional-value (None / missing key) "
           "dereference analysis + inspection wiring / coverage agreement + taint of unvalidated "
           "task names (ast)",
    "C17": "effect ordering (reject dominates write) and optional-value dereference analysis of "
           "the rerun path",
    "C01": "provenance and guard-set analysis of get_next_tasks / update_task_state (ast, "
           "structured control dependence) + call-site classification from the resolved call graph",
    "C07": "guard-set and value-origin analysis of the join readiness code; must-follow check of "
           "the unreachable-join test",
    "C13": "ordering (must-precede) and guard-dominance analysis of the retry decision",
    "C11": "exception-escape analysis: call-chain enumeration over the resolved call graph with "
           "lexical try/except containment; evaluator wrapping contract",
    "C04": "typestate analysis of terminal rows + effect analysis (who writes the status; no "
           "write precedes a rejecting raise) by abstract interpretation over the ast",
    "C05": "ownership / alias analysis (access-path abstract interpretation), "
           "serialize-deserialize attribute agreement",
    "C06": "ownership analysis: no mutation through a borrowed reference into the context store",
    "C18": "effect analysis of every persistent write site (append-only, frozen fields, "
           "write-once guards)",
    "C02": "static typestate analysis of the folded transition tables + exhaustive path "
           "enumeration of the event contextualisers (ast)",
    "C03": "static typestate analysis of the folded transition tables (ast)",
    "C09": "static typestate analysis of the pause/resume rows (ast)",
    "C10": "static typestate analysis of the cancel rows and table closure (ast)",
    "C12": "static typestate analysis of the task table over with-items event forms (ast) + "
           "sign-case evaluation and guard analysis of the concurrency window",
}


# ---------------------------------------------------------------------- thorough tier
ALL_CONTROLS = [getattr(K, n) for n in sorted(dir(K)) if n.startswith("ctl_")]


def thorough(pid):
    """Adequacy callback for the thorough tier of a property."""
    from sa import adequacy as A
    spec = PROPERTIES[pid]

    def run(ctx):
        out = {}
        trs = [r.table_rule for r in spec["rules"] if hasattr(r, "table_rule")]
        if trs:
            out["tables"] = A.table_adequacy(ctx, trs)
        # every control that the quick tier does not already run
        extra = [c for c in ALL_CONTROLS if c not in spec.get("controls", [])]
        mine = set()
        for r in spec["rules"]:
            mine.add(getattr(r, "__name__", ""))
        res = []
        for c in extra:
            name, fired, detail = c(ctx)
            res.append({"control": name, "fired": bool(fired), "detail": detail})
        out["all_controls"] = res
        out["controls_total"] = len(res)
        out["controls_fired"] = sum(1 for r in res if r["fired"])
        return out
    return run


for _pid in list(PROPERTIES):
    PROPERTIES[_pid]["adequacy"] = thorough(_pid)

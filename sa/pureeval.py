"""Constant evaluation of pure table-building helpers.

The transition tables, status lists and event lists of orquesta are module-level constants.  A
maintainer may compute part of them (``statuses.CANCELING: _compose_canceling_transitions()``):
the value is still a constant of the source, decided by nothing but the text of the module, so
the folder has to be able to read it.  This module interprets the body of a *module-level
function called from a module-level constant expression* over the folder's values: assignments,
for / if / continue / break / return, dict / list / tuple / set displays and comprehensions,
string building, membership and equality tests, the container methods that build values
(append, extend, update, items, keys, values, get, setdefault, add, copy) and a handful of
builtins.  It never imports or runs repository code; anything outside this fragment (attribute
access on unknown objects, calls of foreign functions, while loops, exceptions) is NotFoldable,
which the rules report as UNDECIDED.  A step budget bounds the work.
"""

import ast
import copy

from sa.core import NotFoldable, Opaque

MAX_STEPS = 200000

SAFE_BUILTINS = {
    "len": len, "sorted": sorted, "list": list, "dict": dict, "tuple": tuple, "set": set,
    "frozenset": frozenset, "str": str, "int": int, "min": min, "max": max, "any": any,
    "all": all, "range": range, "enumerate": enumerate, "zip": zip, "reversed": reversed,
    "bool": bool, "sum": sum,
}
# methods that only read or build the receiver (a value created during this evaluation)
SAFE_METHODS = {
    list: ("append", "extend", "insert", "index", "count", "copy"),
    dict: ("update", "items", "keys", "values", "get", "setdefault", "copy"),
    set: ("add", "update", "union", "copy"),
    str: ("format", "join", "upper", "lower", "strip", "startswith", "endswith", "replace",
          "split"),
    tuple: ("index", "count"),
    frozenset: ("union",),
}


class _Return(Exception):
    def __init__(self, value):
        self.value = value


class _Break(Exception):
    pass


class _Continue(Exception):
    pass


class PureEval(object):
    def __init__(self, prog, module, depth=0):
        self.prog = prog
        self.module = module
        self.steps = 0
        self.depth = depth
        if depth > 12:
            raise NotFoldable("constant-building helpers nested too deeply (recursion?)")

    def tick(self):
        self.steps += 1
        if self.steps > MAX_STEPS:
            raise NotFoldable("constant evaluation exceeded its step budget")

    # ------------------------------------------------------------------ entry
    def call(self, fnode, args, kwargs):
        a = fnode.args
        if a.kwarg or a.kwonlyargs or a.posonlyargs:
            raise NotFoldable("helper signature not supported")
        if any(ast.unparse(d) not in ("staticmethod", "classmethod") for d in fnode.decorator_list):
            raise NotFoldable("decorated helper")
        names = [x.arg for x in a.args]
        env = {}
        if a.vararg is not None:
            # def helper(first, *rest): the surplus positional arguments
            env[a.vararg.arg] = tuple(args[len(names):])
            args = args[:len(names)]
        if len(args) > len(names):
            raise NotFoldable("too many arguments")
        for n, v in zip(names, args):
            env[n] = v
        for k, v in kwargs.items():
            if k not in names or k in env:
                raise NotFoldable("bad keyword argument")
            env[k] = v
        defaults = a.defaults
        for n, d in zip(names[len(names) - len(defaults):], defaults):
            if n not in env:
                env[n] = self.ev(d, {})
        if any(n not in env for n in names):
            raise NotFoldable("missing argument")
        try:
            self.block(fnode.body, env)
        except _Return as r:
            return r.value
        return None

    # ------------------------------------------------------------------ statements
    def block(self, stmts, env):
        for s in stmts:
            self.stmt(s, env)

    def stmt(self, s, env):
        self.tick()
        if isinstance(s, ast.Expr):
            if isinstance(s.value, ast.Constant):
                return
            self.ev(s.value, env)
        elif isinstance(s, ast.Assign):
            v = self.ev(s.value, env)
            for t in s.targets:
                self.assign(t, v, env)
        elif isinstance(s, ast.AugAssign):
            cur = self.ev(ast.copy_location(self._load(s.target), s.target), env)
            v = self.binop(s.op, cur, self.ev(s.value, env))
            self.assign(s.target, v, env)
        elif isinstance(s, ast.If):
            self.block(s.body if self.ev(s.test, env) else s.orelse, env)
        elif isinstance(s, ast.For):
            it = self.ev(s.iter, env)
            broke = False
            for x in self.iterate(it):
                self.tick()
                self.assign(s.target, x, env)
                try:
                    self.block(s.body, env)
                except _Continue:
                    continue
                except _Break:
                    broke = True
                    break
            if not broke:
                self.block(s.orelse, env)
        elif isinstance(s, ast.Return):
            raise _Return(self.ev(s.value, env) if s.value is not None else None)
        elif isinstance(s, ast.Continue):
            raise _Continue()
        elif isinstance(s, ast.Break):
            raise _Break()
        elif isinstance(s, ast.Pass):
            return
        else:
            raise NotFoldable("statement %s in a constant-building helper" % type(s).__name__)

    @staticmethod
    def _load(target):
        # a fresh node (the analysed trees carry parent links: deep-copying one node would
        # copy the whole module)
        return ast.parse(ast.unparse(target), mode="eval").body

    def assign(self, t, v, env):
        if isinstance(t, ast.Name):
            env[t.id] = v
        elif isinstance(t, (ast.Tuple, ast.List)):
            vals = list(self.iterate(v))
            if len(vals) != len(t.elts):
                raise NotFoldable("unpacking mismatch")
            for e, x in zip(t.elts, vals):
                self.assign(e, x, env)
        elif isinstance(t, ast.Subscript):
            obj = self.ev(t.value, env)
            key = self.ev(t.slice, env)
            if not isinstance(obj, (dict, list)):
                raise NotFoldable("item assignment on %s" % type(obj).__name__)
            obj[key] = v
        else:
            raise NotFoldable("assignment target %s" % type(t).__name__)

    def iterate(self, v):
        if isinstance(v, (list, tuple, set, frozenset, dict, str, range)) or hasattr(v, "__next__") \
                or type(v).__name__ in ("dict_items", "dict_keys", "dict_values", "enumerate", "zip",
                                        "list_reverseiterator", "reversed"):
            return v
        raise NotFoldable("iteration over %s" % type(v).__name__)

    # ------------------------------------------------------------------ expressions
    def binop(self, op, l, r):
        if isinstance(l, Opaque) or isinstance(r, Opaque):
            raise NotFoldable("opaque operand")
        try:
            if isinstance(op, ast.Add):
                return l + r
            if isinstance(op, ast.Mod):
                return l % r
            if isinstance(op, ast.BitOr):
                return l | r
            if isinstance(op, ast.Sub):
                return l - r
            if isinstance(op, ast.Mult):
                return l * r
        except TypeError:
            raise NotFoldable("operands of %s" % type(op).__name__)
        raise NotFoldable("operator %s" % type(op).__name__)

    def ev(self, e, env):
        self.tick()
        if isinstance(e, ast.Constant):
            return e.value
        if isinstance(e, ast.Name):
            if e.id in env:
                return env[e.id]
            if e.id in SAFE_BUILTINS and e.id not in self.module.bindings:
                return SAFE_BUILTINS[e.id]
            v = self.prog.fold_global(self.module, e.id)
            return copy.deepcopy(v) if isinstance(v, (list, dict, set)) else v
        if isinstance(e, ast.Attribute):
            v = self.prog._fold(e, self.module, {}, False)
            return copy.deepcopy(v) if isinstance(v, (list, dict, set)) else v
        if isinstance(e, (ast.List, ast.Tuple, ast.Set)):
            items = []
            for x in e.elts:
                if isinstance(x, ast.Starred):
                    items.extend(self.iterate(self.ev(x.value, env)))
                else:
                    items.append(self.ev(x, env))
            return items if isinstance(e, ast.List) else (
                tuple(items) if isinstance(e, ast.Tuple) else set(items))
        if isinstance(e, ast.Dict):
            out = {}
            for k, v in zip(e.keys, e.values):
                if k is None:
                    out.update(self.ev(v, env))
                else:
                    out[self.ev(k, env)] = self.ev(v, env)
            return out
        if isinstance(e, ast.BinOp):
            return self.binop(e.op, self.ev(e.left, env), self.ev(e.right, env))
        if isinstance(e, ast.UnaryOp):
            v = self.ev(e.operand, env)
            if isinstance(e.op, ast.Not):
                return not v
            if isinstance(e.op, ast.USub):
                return -v
            raise NotFoldable("unary operator")
        if isinstance(e, ast.BoolOp):
            v = None
            for sub in e.values:
                v = self.ev(sub, env)
                if bool(v) != isinstance(e.op, ast.And):
                    return v
            return v
        if isinstance(e, ast.IfExp):
            return self.ev(e.body if self.ev(e.test, env) else e.orelse, env)
        if isinstance(e, ast.Compare):
            left = self.ev(e.left, env)
            for op, c in zip(e.ops, e.comparators):
                right = self.ev(c, env)
                if isinstance(op, ast.In):
                    ok = left in right
                elif isinstance(op, ast.NotIn):
                    ok = left not in right
                elif isinstance(op, ast.Eq):
                    ok = left == right
                elif isinstance(op, ast.NotEq):
                    ok = left != right
                elif isinstance(op, ast.Is):
                    ok = left is right
                elif isinstance(op, ast.IsNot):
                    ok = left is not right
                elif isinstance(op, ast.Lt):
                    ok = left < right
                elif isinstance(op, ast.LtE):
                    ok = left <= right
                elif isinstance(op, ast.Gt):
                    ok = left > right
                elif isinstance(op, ast.GtE):
                    ok = left >= right
                else:
                    raise NotFoldable("comparison")
                if not ok:
                    return False
                left = right
            return True
        if isinstance(e, ast.Subscript):
            obj = self.ev(e.value, env)
            if isinstance(e.slice, ast.Slice):
                lo = self.ev(e.slice.lower, env) if e.slice.lower is not None else None
                hi = self.ev(e.slice.upper, env) if e.slice.upper is not None else None
                st = self.ev(e.slice.step, env) if e.slice.step is not None else None
                return obj[lo:hi:st]
            try:
                return obj[self.ev(e.slice, env)]
            except (KeyError, IndexError, TypeError):
                raise NotFoldable("subscript %s" % ast.unparse(e))
        if isinstance(e, ast.JoinedStr):
            out = ""
            for v in e.values:
                if isinstance(v, ast.Constant):
                    out += str(v.value)
                elif isinstance(v, ast.FormattedValue) and v.format_spec is None and v.conversion == -1:
                    out += str(self.ev(v.value, env))
                else:
                    raise NotFoldable("f-string with format spec")
            return out
        if isinstance(e, (ast.ListComp, ast.SetComp, ast.GeneratorExp, ast.DictComp)):
            return self.comp(e, env)
        if isinstance(e, ast.Call):
            return self.callexpr(e, env)
        if isinstance(e, ast.Lambda):
            raise NotFoldable("lambda in a constant-building helper")
        raise NotFoldable("expression %s" % type(e).__name__)

    def comp(self, e, env):
        out = []

        def rec(i, scope):
            if i == len(e.generators):
                if isinstance(e, ast.DictComp):
                    out.append((self.ev(e.key, scope), self.ev(e.value, scope)))
                else:
                    out.append(self.ev(e.elt, scope))
                return
            g = e.generators[i]
            for x in self.iterate(self.ev(g.iter, scope)):
                self.tick()
                inner = dict(scope)
                self.assign(g.target, x, inner)
                if all(self.ev(c, inner) for c in g.ifs):
                    rec(i + 1, inner)

        rec(0, dict(env))
        if isinstance(e, ast.DictComp):
            return dict(out)
        if isinstance(e, ast.SetComp):
            return set(out)
        return out

    def callexpr(self, e, env):
        if any(isinstance(a, ast.Starred) for a in e.args) or any(k.arg is None for k in e.keywords):
            raise NotFoldable("star arguments")
        fn = e.func
        args = [self.ev(a, env) for a in e.args]
        kwargs = {k.arg: self.ev(k.value, env) for k in e.keywords}
        if isinstance(fn, ast.Name):
            if fn.id in env:
                raise NotFoldable("call of a local value")
            if fn.id in SAFE_BUILTINS and fn.id not in self.module.bindings \
                    and fn.id not in self.module.functions:
                if fn.id == "sorted" and "key" in kwargs:
                    raise NotFoldable("sorted with a key function")
                try:
                    return SAFE_BUILTINS[fn.id](*args, **kwargs)
                except Exception as x:  # noqa: B902 - any failure means: not a constant
                    raise NotFoldable("%s(): %s" % (fn.id, x))
            target = self.prog.resolve_function_name(self.module, fn.id)
            if target is not None:
                return PureEval(self.prog, target.module, self.depth + 1)._sub(self, target.node, args, kwargs)
            raise NotFoldable("call of %s" % fn.id)
        if isinstance(fn, ast.Attribute):
            # module.function(...)
            base = self.prog.resolve_name_expr(fn.value, self.module) if isinstance(
                fn.value, (ast.Name, ast.Attribute)) and not (
                    isinstance(fn.value, ast.Name) and fn.value.id in env) else None
            if base is not None and hasattr(base, "functions") and fn.attr in base.functions:
                target = base.functions[fn.attr]
                return PureEval(self.prog, target.module, self.depth + 1)._sub(self, target.node, args, kwargs)
            obj = self.ev(fn.value, env)
            for typ, names in SAFE_METHODS.items():
                if isinstance(obj, typ) and fn.attr in names:
                    try:
                        return getattr(obj, fn.attr)(*args, **kwargs)
                    except Exception as x:  # noqa: B902
                        raise NotFoldable("%s.%s(): %s" % (typ.__name__, fn.attr, x))
            raise NotFoldable("method %s on %s" % (fn.attr, type(obj).__name__))
        raise NotFoldable("call %s" % ast.unparse(e))

    def _sub(self, parent, fnode, args, kwargs):
        self.steps = parent.steps
        try:
            return self.call(fnode, args, kwargs)
        finally:
            parent.steps = self.steps

"""C16 rules: O4 (evaluation does not hand the caller's context to the template engine), O5
(engine internals - double-underscore names - do not reach persisted contexts or outputs), and
the guards of ctx() / publish stripping."""

import ast

from sa.core import AnalysisError, norm_src, unparse
from sa.effects import effects_of
from sa.guards import FuncGuards, callee_name, calls_in, fmt_atoms
from sa.report import Finding, RuleResult

COPYING = ("deepcopy", "convert_input_data", "copy")


def rule_O4(ctx):
    res = RuleResult("O4", "Evaluator.contextualize hands the evaluation context to the template "
                           "engine only through a copying / immutabilising call")
    prog = ctx.prog
    base = prog.cls("expressions.base.Evaluator")
    evals = [c for c in prog.subclasses(base) if c is not base and "contextualize" in c.methods]
    if len(evals) < 2:
        raise AnalysisError("fewer than two evaluators define contextualize")
    for ci in evals:
        f = ci.methods["contextualize"]
        fg = FuncGuards(prog, f)
        data = f.params[1] if len(f.params) > 1 else None
        aliases = {data}
        n_sites = 0
        for n in ast.walk(f.node):
            vals = []
            if isinstance(n, ast.Assign):
                vals = [(n, n.value)]
            elif isinstance(n, ast.Dict):
                vals = [(n, v) for v in n.values]
            for holder, v in vals:
                raw = _raw_use(v, aliases)
                if raw is None:
                    continue
                # plain alias assignment  x = data
                if isinstance(holder, ast.Assign) and isinstance(holder.targets[0], ast.Name):
                    if isinstance(v, ast.Name):
                        aliases.add(holder.targets[0].id)
                        continue
                n_sites += 1
                inst = (f.qualname, norm_src(holder))
                atoms = fg.atoms(holder)
                not_container = any(a[0] == "notisinstance" and a[1] == data for a in atoms)
                if not_container:
                    res.holds(inst, "only when the value is not a container")
                else:
                    res.violated(inst, Finding(
                        "O4", f.file, f.qualname, norm_src(holder),
                        "the caller's context object %r is placed into the engine context as is: "
                        "an expression can mutate the context it is evaluated against "
                        "(e.g. ctx('l').append(..))" % data, line=holder.lineno))
        for n in ast.walk(f.node):
            if isinstance(n, ast.Call) and callee_name(n) in COPYING and any(
                    _raw_use(a, aliases) for a in n.args):
                res.holds((f.qualname, norm_src(n)), "converted / copied")
                n_sites += 1
        if not n_sites:
            res.violated((f.qualname, "no use"), Finding(
                "O4", f.file, f.qualname, "use of %s" % data,
                "contextualize does not use its data argument in a recognisable way", line=f.node.lineno))
    return res


def _raw_use(v, aliases):
    """v is the bare parameter (or `param or {}`)."""
    if isinstance(v, ast.Name) and v.id in aliases:
        return v
    if isinstance(v, ast.BoolOp) and any(isinstance(x, ast.Name) and x.id in aliases for x in v.values):
        return v
    return None


def rule_O5(ctx):
    res = RuleResult("O5", "engine internals (names starting with a double underscore) do not "
                           "reach persisted contexts or the workflow output")
    a = ctx.absint
    n = 0
    for e in effects_of(ctx):
        sink = None
        if e.path[:2] == ("WS", "contexts") and e.op in ("append", "extend", "setitem", "insert"):
            sink = "persisted context"
        elif e.path == ("WC", "_outputs") and e.op == "setattr":
            sink = "workflow output"
        if sink is None:
            continue
        n += 1
        inst = (sink, e.func.qualname, norm_src(e.node))
        internal = []
        for t in e.value:
            if t[0] == "F":
                for fld in a.heap.get(t[1], {}):
                    if isinstance(fld, str) and fld.startswith("__"):
                        internal.append(fld)
        if internal:
            res.violated(inst, Finding(
                "O5", e.func.file, e.func.qualname, norm_src(e.node),
                "the value stored as %s may carry engine internals %s" % (sink, sorted(set(internal))),
                line=e.node.lineno, chain=e.chain()))
        else:
            res.holds(inst)
    if n < 2:
        raise AnalysisError("fewer than two persistence sinks for contexts/outputs found")
    # publish strips double-underscore names from the outgoing context
    f = ctx.prog.function("specs.native.v1.models.TaskSpec.finalize_context")
    fg = FuncGuards(ctx.prog, f)
    strip = False
    for c in calls_in(f.node):
        if callee_name(c) in ("pop",) or False:
            if any(x[0] == "truthy" and "startswith('__')" in x[1].replace('"', "'") for x in fg.atoms(c)):
                strip = True
    for d in ast.walk(f.node):
        if isinstance(d, ast.Delete) and any(
                x[0] == "truthy" and "startswith('__')" in x[1].replace('"', "'") for x in fg.atoms(d)):
            strip = True
    # ... or in a helper of the same class that finalize_context hands the context to
    if not strip and f.cls is not None:
        for c in calls_in(f.node):
            if isinstance(c.func, ast.Attribute) and isinstance(c.func.value, ast.Name) and \
                    c.func.value.id in ("self", "cls"):
                h = ctx.prog.lookup_method(f.cls, c.func.attr)
                if h is None or h is f:
                    continue
                hg = FuncGuards(ctx.prog, h)
                for c2 in calls_in(h.node):
                    if callee_name(c2) == "pop" and any(
                            x[0] == "truthy" and "startswith('__')" in x[1].replace('"', "'")
                            for x in hg.atoms(c2)):
                        strip = True
                for d in ast.walk(h.node):
                    if isinstance(d, ast.Delete) and any(
                            x[0] == "truthy" and "startswith('__')" in x[1].replace('"', "'")
                            for x in hg.atoms(d)):
                        strip = True
    # ... or builds the outgoing context from the entries that do not start with '__': the
    # first element of the returned tuple derives from a comprehension with that filter and
    # is afterwards only merged with the published variables
    rets = [r for r in ast.walk(f.node) if isinstance(r, ast.Return) and isinstance(
        r.value, ast.Tuple) and r.value.elts and isinstance(r.value.elts[0], ast.Name)]
    if not strip and rets:
        ok_all = True
        for r in rets:
            nm, seen_ = r.value.elts[0].id, set()
            roots, work = [], [nm]
            while work:
                x = work.pop()
                if x in seen_:
                    continue
                seen_.add(x)
                for d in ast.walk(f.node):
                    if isinstance(d, ast.Assign) and any(
                            isinstance(t, ast.Name) and t.id == x for t in d.targets):
                        v = d.value
                        if isinstance(v, ast.Call) and callee_name(v) == "merge_dicts" and v.args \
                                and isinstance(v.args[0], ast.Name):
                            work.append(v.args[0].id)
                        elif isinstance(v, ast.Name):
                            work.append(v.id)
                        else:
                            roots.append(v)
            filt = roots and all(isinstance(v, ast.DictComp) and any(
                isinstance(c, ast.UnaryOp) and isinstance(c.op, ast.Not)
                and "startswith('__')" in unparse(c).replace('"', "'")
                for g in v.generators for c in g.ifs) for v in roots)
            ok_all = ok_all and bool(filt)
        strip = ok_all
    if strip:
        res.holds(("finalize_context", "strips __ names from the outgoing context"))
    else:
        res.violated(("finalize_context", "strip"), Finding(
            "O5", f.file, f.qualname, "stripping of double-underscore names",
            "finalize_context no longer removes double-underscore names from the outgoing context",
            line=f.node.lineno))
    return res


def rule_O6(ctx):
    res = RuleResult("O6", "ctx() never returns a double-underscore name: the keyed form raises "
                           "for it, the unkeyed form filters it")
    prog = ctx.prog
    f = prog.function("expressions.functions.common.ctx_")
    fg = FuncGuards(prog, f)
    rets = [r for r in ast.walk(f.node) if isinstance(r, ast.Return) and r.value is not None]
    if not rets:
        raise AnalysisError("ctx_ has no return")
    for r in rets:
        inst = (f.qualname, norm_src(r))
        v = r.value
        if isinstance(v, ast.DictComp):
            filt = any("startswith('__')" in unparse(c).replace('"', "'") and isinstance(
                c, ast.UnaryOp) for g in v.generators for c in g.ifs)
            if filt:
                res.holds(inst, "filtered")
            else:
                res.violated(inst, Finding(
                    "O6", f.file, f.qualname, norm_src(r),
                    "ctx() without a key returns the context without filtering double-underscore "
                    "names", line=r.lineno))
        else:
            atoms = fg.atoms(r)
            blocked = any(
                (a[0] == "falsy" and "startswith('__')" in a[1].replace('"', "'"))
                or (a[0] == "or" and any(any(
                    x[0] == "falsy" and "startswith('__')" in x[1].replace('"', "'") for x in alt)
                    for alt in a[1]))
                for a in atoms)
            # (a stricter clause - the value must be the mapping subscripted by exactly the
            # tested key - was withdrawn: a correct dotted-path look-up that tests the root
            # segment trips it)
            odd = None
            if blocked and odd is not None:
                res.violated(inst, Finding(
                    "O6", f.file, f.qualname, "value returned by ctx(key)",
                    "ctx(key) tests the key it was given for the double-underscore prefix but "
                    "returns a value reached another way (%s): a composite key such as "
                    "'__state.status' passes the test and reads engine internals" % odd,
                    line=r.lineno))
            elif blocked:
                res.holds(inst, "raises for double-underscore keys")
            else:
                res.violated(inst, Finding(
                    "O6", f.file, f.qualname, norm_src(r),
                    "ctx(key) returns the value without rejecting double-underscore keys "
                    "(guards: %s)" % fmt_atoms(atoms), line=r.lineno))
    return res


def _not_keyed_read(f, v, seen=None):
    """None when the returned expression is the variables mapping subscripted by exactly the
    key parameter (directly, or through locals every definition of which is); else a phrase
    describing the other read."""
    from sa.core import untag
    seen = seen if seen is not None else set()
    key = f.params[1] if len(f.params) > 1 else None
    if isinstance(v, ast.Subscript):
        if isinstance(v.slice, ast.Name) and v.slice.id == key:
            return None
        return "%s" % untag(unparse(v))
    if isinstance(v, ast.Constant) and v.value is None:
        return None
    if isinstance(v, ast.Name):
        if v.id in seen:
            return None
        seen.add(v.id)
        ds = [d for d in ast.walk(f.node) if isinstance(d, ast.Assign) and any(
            isinstance(t, ast.Name) and t.id == v.id for t in d.targets)]
        if not ds:
            return "%s" % untag(v.id)
        for d in ds:
            w = _not_keyed_read(f, d.value, seen)
            if w is not None:
                return w
        return None
    if isinstance(v, ast.Call) and callee_name(v) in ("deepcopy", "copy") and v.args:
        return _not_keyed_read(f, v.args[0], seen)
    return "%s" % untag(unparse(v))[:80]


# ====================================================================== O7
def rule_O7(ctx):
    """merge_dicts is value-blind: whether a key of `right` lands in `left` depends only on
    key presence, on both sides being dicts (recursion) and on the overwrite flag - never on
    the value itself (None, falsy, equal ...).  A value-dependent guard drops or keeps user
    data by its content, which is exactly what 'values flow through unchanged' excludes."""
    res = RuleResult("O7", "merge_dicts copies every key of the right operand: its stores are "
                           "guarded only by key presence, dict-ness of both sides and the "
                           "overwrite flag, never by the value")
    prog = ctx.prog
    f = prog.function("utils.dictionary.merge_dicts")
    fg = FuncGuards(prog, f)
    params = list(f.params)
    if len(params) < 2:
        raise AnalysisError("merge_dicts signature changed")
    left, right = params[0], params[1]
    flags = set(params[2:])

    def flat(atoms):
        for a in atoms:
            if a[0] in ("or", "and"):
                for alt in a[1]:
                    for x in flat(alt):
                        yield x
            else:
                yield a

    def allowed(a):
        op, lhs = a[0], a[1]
        if lhs in (left, right) and op in ("is", "isnot", "truthy", "falsy") and (
                op in ("truthy", "falsy") or a[2] is None):
            return True   # absent operand
        if op in ("in", "notin") and a[2] == ("src", left):
            return True   # key presence
        if op in ("isinstance", "notisinstance"):
            return True   # structural (dict-ness), not the value
        if op in ("truthy", "falsy") and lhs in flags:
            return True
        return False

    sites = []
    for n in ast.walk(f.node):
        if isinstance(n, ast.Assign) and any(isinstance(t, ast.Subscript) for t in n.targets):
            sites.append(n)
        elif isinstance(n, ast.Call) and callee_name(n) in ("update", "setdefault", f.name):
            sites.append(n)
    if len(sites) < 2:
        raise AnalysisError("merge_dicts: store sites not found")
    for n in sites:
        inst = (f.qualname, norm_src(n))
        bad = [a for a in flat(fg.atoms(n)) if not allowed(a)]
        if bad:
            res.violated(inst, Finding(
                "O7", f.file, f.qualname, norm_src(n),
                "whether this key is merged depends on the value (%s): a value such as None / "
                "an equal or falsy value is silently kept from overwriting or from being "
                "added" % fmt_atoms(bad), line=n.lineno))
        else:
            res.holds(inst)
    # every key of right is visited: the loop iterates right.items() / right unfiltered
    loops = [n for n in ast.walk(f.node) if isinstance(n, ast.For)]
    ok = any(unparse(l.iter) in ("%s.items()" % right, right, "%s.keys()" % right) for l in loops)
    if ok:
        res.holds((f.qualname, "loop over right"))
    else:
        res.violated((f.qualname, "loop"), Finding(
            "O7", f.file, f.qualname, "iteration over the right operand",
            "merge_dicts does not iterate all items of its right operand", line=f.node.lineno))
    return res


# ====================================================================== V1
RENDERERS = {
    "specs.native.v1.models.TaskSpec.finalize_context": ("in_ctx",),
    "specs.native.v1.models.WorkflowSpec.render_input": ("runtime_inputs", "in_ctx"),
    "specs.native.v1.models.WorkflowSpec.render_vars": ("in_ctx",),
    "specs.native.v1.models.WorkflowSpec.render_output": ("in_ctx",),
}


def rule_V1(ctx):
    """Rendering of input / vars / publish / output is value-blind: inside these functions no
    branch condition reads a rendered value, a runtime input value or a value taken out of the
    context.  What is stored under a name may depend on the definition (is the entry a
    mapping? is the key present?) but never on what the value happens to be - otherwise some
    value (None, an equal value, a falsy one) is silently replaced or not published."""
    res = RuleResult("V1", "input, vars, publish and output rendering never branch on a "
                           "rendered value, a runtime input value or a value read from the "
                           "context")
    prog = ctx.prog
    for q, mappings in sorted(RENDERERS.items()):
        f = prog.function(q)
        maps = set(m for m in mappings if m in f.params)
        # local copies of the context mappings
        for n in ast.walk(f.node):
            if isinstance(n, ast.Assign) and len(n.targets) == 1 and isinstance(
                    n.targets[0], ast.Name):
                names = {x.id for x in ast.walk(n.value) if isinstance(x, ast.Name)}
                calls = {callee_name(c) for c in calls_in(n.value)}
                if names & maps and calls <= {"deepcopy", "dict", "copy"} and not any(
                        isinstance(x, ast.Subscript) for x in ast.walk(n.value)):
                    maps.add(n.targets[0].id)

        def reads_value(e, tainted):
            for x in ast.walk(e):
                if isinstance(x, ast.Name) and x.id in tainted and isinstance(x.ctx, ast.Load):
                    return x.id
                if isinstance(x, ast.Subscript) and isinstance(x.value, ast.Name) and \
                        x.value.id in maps and isinstance(x.ctx, ast.Load):
                    return unparse(x)
                if isinstance(x, ast.Call) and callee_name(x) in ("get", "pop") and isinstance(
                        x.func, ast.Attribute) and isinstance(x.func.value, ast.Name) and \
                        x.func.value.id in maps:
                    return unparse(x)
            return None

        tainted = set()
        for _ in range(4):
            for n in ast.walk(f.node):
                if isinstance(n, ast.Assign):
                    v = n.value
                    hot = any(callee_name(c) == "evaluate" for c in calls_in(v)) or \
                        reads_value(v, tainted) is not None
                    if hot:
                        for t in n.targets:
                            for x in ast.walk(t):
                                if isinstance(x, ast.Name) and isinstance(x.ctx, ast.Store):
                                    tainted.add(x.id)
        tainted -= maps
        tests = []
        for n in ast.walk(f.node):
            if isinstance(n, (ast.If, ast.IfExp, ast.While)):
                tests.append((n, n.test))
            elif isinstance(n, ast.comprehension):
                for c in n.ifs:
                    tests.append((n, c))
            elif isinstance(n, ast.BoolOp) and not isinstance(
                    getattr(n, "_parent", None), (ast.If, ast.IfExp, ast.While, ast.BoolOp)):
                # value-selecting and/or outside a test:  x = a or b
                for v in n.values[:-1]:
                    tests.append((n, v))
        n_ok = 0
        for owner, t in tests:
            what = reads_value(t, tainted)
            inst = (f.qualname, norm_src(t))
            if what is None:
                res.holds(inst)
                n_ok += 1
            else:
                res.violated(inst, Finding(
                    "V1", f.file, f.qualname, "branch on " + norm_src(t),
                    "%s branches on the value %s: what is stored depends on the value itself, so "
                    "some value (None, an equal or falsy one) is replaced or not passed on"
                    % (f.name, what), line=getattr(t, "lineno", f.node.lineno)))
        stores = [n for n in ast.walk(f.node) if isinstance(n, ast.Assign) and any(
            isinstance(t, ast.Subscript) for t in n.targets) and reads_value(n.value, tainted)]
        if stores:
            res.holds((f.qualname, "stores"), "%d store(s) of rendered values" % len(stores))
        else:
            raise AnalysisError("%s no longer stores a rendered value" % q)
    return res


# ====================================================================== V2
def rule_V2(ctx):
    """The result a task's transitions are evaluated on is the reported result: on every
    decision path of make_task_result for a task without items the returned value is the
    event's result itself - not a value chosen by testing it (0, False, "", [] and {} are
    results like any other).  Decided by enumerating the function's paths symbolically."""
    from sa.symx import PathEnumerator, Sym
    res = RuleResult("V2", "make_task_result hands the reported result through unchanged for a "
                           "task without items (no test on the value on any path)")
    prog = ctx.prog
    f = prog.function("conducting.WorkflowConductor.make_task_result")
    params = [p for p in f.params if p not in ("self", "cls")]
    if len(params) < 2:
        raise AnalysisError("make_task_result signature changed")
    ev = params[1]

    def atomizer(x, env):
        node = x.node if isinstance(x, Sym) else x
        return ("opaque", unparse(node) if node is not None else repr(x))

    leaves = PathEnumerator(prog, f, {}, atomizer).enumerate()
    n = 0
    for value, decisions in leaves:
        no_items = any("has_items" in a[1] and v is False for a, v in decisions)
        undecided = not any("has_items" in a[1] for a, v in decisions)
        if not (no_items or undecided):
            continue
        n += 1
        path = ", ".join("%s=%s" % (a[1], v) for a, v in decisions)
        inst = (f.qualname, path or "unconditional")
        got = unparse(value.node) if isinstance(value, Sym) and value.node is not None else repr(value)
        tests_value = [a[1] for a, v in decisions if a[1].replace(" ", "") in (
            "%s.result" % ev, "not%s.result" % ev)]
        if isinstance(value, Sym) and value.kind == "expr" and got == "%s.result" % ev \
                and not tests_value:
            res.holds(inst)
        elif undecided and any("TaskItemActionExecutionEvent" in a[1] and v is True
                               for a, v in decisions):
            res.holds(inst, "item event (only reported for tasks with items)")
        else:
            res.violated(inst, Finding(
                "V2", f.file, f.qualname, "result on path [%s]" % path,
                "for a task without items make_task_result returns %s instead of %s.result "
                "itself%s: a falsy result (0, False, '', [], {}) reaches the transition "
                "conditions as something else" % (
                    got, ev, " after testing the value" if tests_value else ""),
                line=f.node.lineno))
    if not n:
        raise AnalysisError("make_task_result: no path for a task without items found")
    return res

"""C16 rules: O4 (evaluation does not hand the caller's context to the template engine), O5
(engine internals - double-underscore names - do not reach persisted contexts or outputs), and
the guards of ctx() / publish stripping."""

import ast

from sa.core import AnalysisError, norm_src, unparse
from sa.effects import effects_of
from sa.guards import FuncGuards, callee_name, calls_in, fmt_atoms
from sa.report import Finding, RuleResult

COPYING = ("deepcopy", "convert_input_data", "copy")


def rule_O4(ctx):
    res = RuleResult("O4", "Evaluator.contextualize hands the evaluation context to the template "
                           "engine only through a copying / immutabilising call")
    prog = ctx.prog
    base = prog.cls("expressions.base.Evaluator")
    evals = [c for c in prog.subclasses(base) if c is not base and "contextualize" in c.methods]
    if len(evals) < 2:
        raise AnalysisError("fewer than two evaluators define contextualize")
    for ci in evals:
        f = ci.methods["contextualize"]
        fg = FuncGuards(prog, f)
        data = f.params[1] if len(f.params) > 1 else None
        aliases = {data}
        n_sites = 0
        for n in ast.walk(f.node):
            vals = []
            if isinstance(n, ast.Assign):
                vals = [(n, n.value)]
            elif isinstance(n, ast.Dict):
                vals = [(n, v) for v in n.values]
            for holder, v in vals:
                raw = _raw_use(v, aliases)
                if raw is None:
                    continue
                # plain alias assignment  x = data
                if isinstance(holder, ast.Assign) and isinstance(holder.targets[0], ast.Name):
                    if isinstance(v, ast.Name):
                        aliases.add(holder.targets[0].id)
                        continue
                n_sites += 1
                inst = (f.qualname, norm_src(holder))
                atoms = fg.atoms(holder)
                not_container = any(a[0] == "notisinstance" and a[1] == data for a in atoms)
                if not_container:
                    res.holds(inst, "only when the value is not a container")
                else:
                    res.violated(inst, Finding(
                        "O4", f.file, f.qualname, norm_src(holder),
                        "the caller's context object %r is placed into the engine context as is: "
                        "an expression can mutate the context it is evaluated against "
                        "(e.g. ctx('l').append(..))" % data, line=holder.lineno))
        for n in ast.walk(f.node):
            if isinstance(n, ast.Call) and callee_name(n) in COPYING and any(
                    _raw_use(a, aliases) for a in n.args):
                res.holds((f.qualname, norm_src(n)), "converted / copied")
                n_sites += 1
        if not n_sites:
            res.violated((f.qualname, "no use"), Finding(
                "O4", f.file, f.qualname, "use of %s" % data,
                "contextualize does not use its data argument in a recognisable way", line=f.node.lineno))
    return res


def _raw_use(v, aliases):
    """v is the bare parameter (or `param or {}`)."""
    if isinstance(v, ast.Name) and v.id in aliases:
        return v
    if isinstance(v, ast.BoolOp) and any(isinstance(x, ast.Name) and x.id in aliases for x in v.values):
        return v
    return None


def rule_O5(ctx):
    res = RuleResult("O5", "engine internals (names starting with a double underscore) do not "
                           "reach persisted contexts or the workflow output")
    a = ctx.absint
    n = 0
    for e in effects_of(ctx):
        sink = None
        if e.path[:2] == ("WS", "contexts") and e.op in ("append", "extend", "setitem", "insert"):
            sink = "persisted context"
        elif e.path == ("WC", "_outputs") and e.op == "setattr":
            sink = "workflow output"
        if sink is None:
            continue
        n += 1
        inst = (sink, e.func.qualname, norm_src(e.node))
        internal = []
        for t in e.value:
            if t[0] == "F":
                for fld in a.heap.get(t[1], {}):
                    if isinstance(fld, str) and fld.startswith("__"):
                        internal.append(fld)
        if internal:
            res.violated(inst, Finding(
                "O5", e.func.file, e.func.qualname, norm_src(e.node),
                "the value stored as %s may carry engine internals %s" % (sink, sorted(set(internal))),
                line=e.node.lineno, chain=e.chain()))
        else:
            res.holds(inst)
    if n < 2:
        raise AnalysisError("fewer than two persistence sinks for contexts/outputs found")
    # publish strips double-underscore names from the outgoing context
    f = ctx.prog.function("specs.native.v1.models.TaskSpec.finalize_context")
    fg = FuncGuards(ctx.prog, f)
    strip = False
    for c in calls_in(f.node):
        if callee_name(c) in ("pop",) or False:
            if any(x[0] == "truthy" and "startswith('__')" in x[1].replace('"', "'") for x in fg.atoms(c)):
                strip = True
    for d in ast.walk(f.node):
        if isinstance(d, ast.Delete) and any(
                x[0] == "truthy" and "startswith('__')" in x[1].replace('"', "'") for x in fg.atoms(d)):
            strip = True
    if strip:
        res.holds(("finalize_context", "strips __ names from the outgoing context"))
    else:
        res.violated(("finalize_context", "strip"), Finding(
            "O5", f.file, f.qualname, "stripping of double-underscore names",
            "finalize_context no longer removes double-underscore names from the outgoing context",
            line=f.node.lineno))
    return res


def rule_O6(ctx):
    res = RuleResult("O6", "ctx() never returns a double-underscore name: the keyed form raises "
                           "for it, the unkeyed form filters it")
    prog = ctx.prog
    f = prog.function("expressions.functions.common.ctx_")
    fg = FuncGuards(prog, f)
    rets = [r for r in ast.walk(f.node) if isinstance(r, ast.Return) and r.value is not None]
    if not rets:
        raise AnalysisError("ctx_ has no return")
    for r in rets:
        inst = (f.qualname, norm_src(r))
        v = r.value
        if isinstance(v, ast.DictComp):
            filt = any("startswith('__')" in unparse(c).replace('"', "'") and isinstance(
                c, ast.UnaryOp) for g in v.generators for c in g.ifs)
            if filt:
                res.holds(inst, "filtered")
            else:
                res.violated(inst, Finding(
                    "O6", f.file, f.qualname, norm_src(r),
                    "ctx() without a key returns the context without filtering double-underscore "
                    "names", line=r.lineno))
        else:
            atoms = fg.atoms(r)
            blocked = any(
                (a[0] == "falsy" and "startswith('__')" in a[1].replace('"', "'"))
                or (a[0] == "or" and any(any(
                    x[0] == "falsy" and "startswith('__')" in x[1].replace('"', "'") for x in alt)
                    for alt in a[1]))
                for a in atoms)
            if blocked:
                res.holds(inst, "raises for double-underscore keys")
            else:
                res.violated(inst, Finding(
                    "O6", f.file, f.qualname, norm_src(r),
                    "ctx(key) returns the value without rejecting double-underscore keys "
                    "(guards: %s)" % fmt_atoms(atoms), line=r.lineno))
    return res

"""Replay of a contextualiser over representative item lists (fallback of sa/tables.py).

The event contextualisers are normally decided symbolically: every test becomes a semantic
atom ("some other item has a status in S") and the decision tree is enumerated.  A maintainer
may write the same thing as a loop with flags, a table of groups, an early exit ... - shapes the
symbolic enumerator does not model.  Instead of giving up, the function is then *interpreted*
(sa/pureeval.py, extended here with objects, lambdas, del and deep copies - still nothing of the
repository is imported or run) for every abstract state: the own item's status, and for each
class of the status partition whether some other item carries a status of that class, with one
representative item per present class.  Because the representatives are put in several orders
(as listed, reversed, each class moved to the front) a name that depends on the *position* of
the items is noticed and reported instead of being decided from one order.

The result has the same form as the symbolic one - (name, [(atom, bool) ...]) leaves - so the
table rules do not know the difference.
"""

import ast
import copy
import itertools

from sa.core import AnalysisError, NotFoldable
from sa.pureeval import PureEval, SAFE_BUILTINS, _Return


class Obj(object):
    """A record with attributes and, optionally, methods given as python callables."""

    def __init__(self, **kw):
        self.__dict__.update(kw)


class Closure(object):
    def __init__(self, node, env, ev):
        self.node, self.env, self.evaluator = node, env, ev

    def __call__(self, *args):
        names = [a.arg for a in self.node.args.args]
        if len(args) != len(names):
            raise NotFoldable("lambda arity")
        scope = dict(self.env)
        scope.update(zip(names, args))
        return self.evaluator.ev(self.node.body, scope)


class ReplayEval(PureEval):
    def ev(self, e, env):
        if isinstance(e, ast.Lambda):
            return Closure(e, env, self)
        if isinstance(e, ast.Attribute):
            # attribute of a local record
            if isinstance(e.value, ast.Name) and e.value.id in env:
                obj = env[e.value.id]
                if isinstance(obj, Obj):
                    if not hasattr(obj, e.attr):
                        raise NotFoldable("attribute %s of a replayed record" % e.attr)
                    return getattr(obj, e.attr)
        return PureEval.ev(self, e, env)

    def stmt(self, s, env):
        if isinstance(s, ast.Delete):
            self.tick()
            for t in s.targets:
                if not isinstance(t, ast.Subscript):
                    raise NotFoldable("del of a name")
                obj = self.ev(t.value, env)
                try:
                    del obj[self.ev(t.slice, env)]
                except (KeyError, IndexError, TypeError):
                    raise NotFoldable("del %s" % ast.unparse(t))
            return
        return PureEval.stmt(self, s, env)

    def callexpr(self, e, env):
        fn = e.func
        name = fn.attr if isinstance(fn, ast.Attribute) else getattr(fn, "id", None)
        if name in ("deepcopy", "copy") and len(e.args) == 1 and not e.keywords:
            return copy.deepcopy(self.ev(e.args[0], env))
        if isinstance(fn, ast.Name) and fn.id in ("filter", "map") and len(e.args) == 2 \
                and fn.id not in env:
            f_ = self.ev(e.args[0], env)
            seq = self.iterate(self.ev(e.args[1], env))
            if f_ is None and fn.id == "filter":
                return [x for x in seq if x]
            if not callable(f_):
                raise NotFoldable("%s with a non-function" % fn.id)
            return [x for x in seq if f_(x)] if fn.id == "filter" else [f_(x) for x in seq]
        if isinstance(fn, ast.Name) and fn.id in env and isinstance(env[fn.id], Closure):
            return env[fn.id](*[self.ev(a, env) for a in e.args])
        if isinstance(fn, ast.Name) and fn.id == "isinstance" and len(e.args) == 2:
            raise NotFoldable("isinstance in a replayed contextualiser")
        if isinstance(fn, ast.Attribute) and isinstance(fn.value, ast.Name) and fn.value.id in env:
            obj = env[fn.value.id]
            if isinstance(obj, Obj) and not (fn.value.id in ("cls", "self") and not callable(
                    getattr(obj, fn.attr, None))):
                m = getattr(obj, fn.attr, None)
                if not callable(m):
                    raise NotFoldable("method %s of a replayed record" % fn.attr)
                return m(*[self.ev(a, env) for a in e.args],
                         **{k.arg: self.ev(k.value, env) for k in e.keywords})
        if isinstance(fn, ast.Attribute) and isinstance(fn.value, ast.Name) and \
                fn.value.id in ("cls", "self") and isinstance(env.get(fn.value.id), Obj):
            # a helper of the same class: interpret it too
            owner = getattr(self, "owner_cls", None)
            m = owner.methods.get(fn.attr) if owner is not None else None
            if m is None:
                raise NotFoldable("call of %s.%s in a replayed contextualiser" % (
                    fn.value.id, fn.attr))
            args = [self.ev(a, env) for a in e.args]
            kwargs = {k.arg: self.ev(k.value, env) for k in e.keywords}
            if not m.is_staticmethod:
                args = [env[fn.value.id]] + args
            sub = ReplayEval(self.prog, m.module, self.depth + 1)
            sub.owner_cls = owner
            sub.steps = self.steps
            try:
                return sub.call(m.node, args, kwargs)
            finally:
                self.steps = sub.steps
        if isinstance(fn, ast.Attribute) and fn.attr in ("pop", "remove", "sort", "clear",
                                                          "discard"):
            obj = self.ev(fn.value, env)
            if isinstance(obj, (list, dict, set)):
                try:
                    return getattr(obj, fn.attr)(*[self.ev(a, env) for a in e.args])
                except Exception as x:  # noqa: B902
                    raise NotFoldable("%s(): %s" % (fn.attr, x))
        if isinstance(fn, ast.Name) and fn.id == "sorted" and fn.id not in env:
            kw = {k.arg: self.ev(k.value, env) for k in e.keywords}
            seq = list(self.iterate(self.ev(e.args[0], env)))
            try:
                return sorted(seq, **kw)
            except Exception as x:  # noqa: B902
                raise NotFoldable("sorted(): %s" % x)
        return PureEval.callexpr(self, e, env)


def status_sets_in(prog, f, all_statuses):
    """Every set of statuses the function's text mentions (an attribute / name / display that
    folds to a status or a collection of statuses)."""
    out = set()
    allst = set(all_statuses)
    for n in ast.walk(f.node):
        if not isinstance(n, (ast.Attribute, ast.Name, ast.List, ast.Tuple, ast.Set, ast.Constant)):
            continue
        try:
            v = prog.fold(n, f.module)
        except (NotFoldable, AnalysisError, Exception):  # noqa: B902
            continue
        if isinstance(v, str) and v in allst:
            out.add(frozenset([v]))
        elif isinstance(v, (list, tuple, set, frozenset)) and v and all(
                isinstance(x, str) and x in allst for x in v):
            out.add(frozenset(v))
    return out


def orderings(items):
    """Three orders of the representative items - as listed, reversed, rotated by half - each
    with a position for the own item (front, end, middle)."""
    n = len(items)
    out = [(list(items), 0), (list(reversed(items)), n)]
    if n >= 2:
        h = n // 2
        out.append((items[h:] + items[:h], h))
    return out


def replay_item_leaves(facts, f, template, domain, classes, budget=400000):
    """{own status: [(name, decisions)]} and a list of order-dependent states, by interpreting
    the item contextualiser for every abstract state over `classes`."""
    prog = facts.prog
    params = [p for p in f.params]
    if len(params) < 5:
        raise AnalysisError("item contextualiser signature changed: %s" % (params,))
    ws_p, tid_p, route_p, ev_p = params[1], params[2], params[3], params[4]
    reps = [sorted(c)[0] for c in classes]
    out, unstable = {}, []
    runs = 0
    for s in domain:
        lv = []
        touched = []

        def probe(*_a, **_k):
            touched.append(1)
            return {"id": "t", "route": 0, "items": [{"status": s}], "ready": True}
        try:
            ev0 = ReplayEval(prog, f.module)
            ev0.owner_cls = f.cls
            val0 = ev0.call(f.node, [
                Obj(), Obj(get_staged_task=probe, staged=[]), "t", 0,
                Obj(name=template % s, status=s, item_id=0, result=None, context=None)], {})
        except NotFoldable as x:
            raise AnalysisError("%s cannot be replayed either (%s): the event names it "
                                "generates are unknown" % (f.qualname, x))
        if not touched:
            # the name does not depend on the other items for this status
            if isinstance(val0, str):
                lv.append((val0, []))
            out[s] = lv
            continue
        for r in range(len(classes) + 1):
            for combo in itertools.combinations(range(len(classes)), r):
                others = [{"status": reps[i]} for i in combo]
                names = set()
                for order, pos in orderings(others):
                    if True:
                        items = [dict(x) for x in order]
                        items.insert(pos, {"status": s})
                        staged = {"id": "t", "route": 0, "items": items, "ready": True}
                        ws = Obj(get_staged_task=lambda *_a, **_k: staged, staged=[staged])
                        ev = Obj(name=template % s, status=s, item_id=pos, result=None,
                                 context=None)
                        ev_ = ReplayEval(prog, f.module)
                        ev_.owner_cls = f.cls
                        ev_.steps = 0
                        runs += 1
                        if runs > budget:
                            raise AnalysisError("replay of %s exceeded its budget" % f.qualname)
                        try:
                            val = ev_.call(_strip_decorators(f.node), [
                                Obj(), ws, "t", 0, ev], {})
                        except NotFoldable as x:
                            raise AnalysisError(
                                "%s cannot be replayed either (%s): the event names it "
                                "generates are unknown" % (f.qualname, x))
                        if not isinstance(val, str):
                            raise AnalysisError("%s returns %r for status %s" % (
                                f.qualname, val, s))
                        names.add(val)
                decisions = [(("item_exists", classes[i]), i in combo)
                             for i in range(len(classes))]
                if len(names) > 1:
                    unstable.append((s, [sorted(classes[i]) for i in combo], sorted(names)))
                for nm in sorted(names):
                    lv.append((nm, decisions))
        out[s] = lv
    return out, unstable


def _strip_decorators(fnode):
    return fnode


def replay_request_leaves(facts, f, template, domain, classes, budget=200000):
    """Same for the task-side contextualiser of workflow requests: no own item; the staged
    entry may be missing, may have no item list, or carries the representative items."""
    prog = facts.prog
    if len(f.params) < 5:
        raise AnalysisError("request contextualiser signature changed: %s" % (f.params,))
    reps = [sorted(c)[0] for c in classes]
    out, unstable, runs = {}, [], 0

    def run(s, staged):
        ws = Obj(get_staged_task=lambda *_a, **_k: staged,
                 staged=[staged] if staged is not None else [])
        ev = Obj(name=template % s, status=s, result=None, context=None)
        e_ = ReplayEval(prog, f.module)
        e_.owner_cls = f.cls
        try:
            val = e_.call(f.node, [Obj(), ws, "t", 0, ev], {})
        except NotFoldable as x:
            raise AnalysisError("%s cannot be replayed either (%s): the event names it "
                                "generates are unknown" % (f.qualname, x))
        if not isinstance(val, str):
            raise AnalysisError("%s returns %r for status %s" % (f.qualname, val, s))
        return val

    for s in domain:
        lv = [(run(s, None), [(("staged_exists",), False)]),
              (run(s, {"id": "t", "route": 0, "ready": True}),
               [(("staged_exists",), True), (("staged_has_items",), False)])]
        for r in range(len(classes) + 1):
            for combo in itertools.combinations(range(len(classes)), r):
                others = [{"status": reps[i]} for i in combo]
                names = set()
                for order, _pos in orderings(others):
                    runs += 1
                    if runs > budget:
                        raise AnalysisError("replay of %s exceeded its budget" % f.qualname)
                    names.add(run(s, {"id": "t", "route": 0, "ready": True,
                                      "items": [dict(x) for x in order]}))
                decisions = [(("staged_exists",), True), (("staged_has_items",), True)] + [
                    (("item_exists", classes[i]), i in combo) for i in range(len(classes))]
                if len(names) > 1:
                    unstable.append((s, [sorted(classes[i]) for i in combo], sorted(names)))
                for nm in sorted(names):
                    lv.append((nm, decisions))
        out[s] = lv
    return out, unstable

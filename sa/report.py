"""Rule results, findings, known-findings matching."""

import json
import os


class Finding(object):
    """A violated rule instance.  Keyed by rule + construct, never by line number."""

    def __init__(self, rule, file, function, construct, message, line=None, chain=None, extra=None):
        self.rule = rule
        self.file = file
        self.function = function
        self.construct = construct
        self.message = message
        self.line = line
        self.chain = chain or []
        self.extra = extra or {}

    @property
    def key(self):
        return (self.rule, self.file, self.function, self.construct)

    def to_json(self):
        d = {
            "rule": self.rule, "file": self.file, "function": self.function,
            "construct": self.construct, "message": self.message, "line": self.line,
        }
        if self.chain:
            d["chain"] = self.chain
        if self.extra:
            d["extra"] = self.extra
        return d

    def text(self):
        loc = "%s:%s" % (self.file, self.line if self.line else "?")
        s = "%s %s rule=%s instance=[%s] -- %s" % (loc, self.function, self.rule, self.construct,
                                                  self.message)
        if self.chain:
            s += "\n    chain: " + " -> ".join(self.chain)
        return s


class RuleResult(object):
    def __init__(self, rule, title):
        self.rule = rule
        self.title = title
        self.instances = []  # (instance id, status 'HOLDS'|'VIOLATED', detail)
        self.findings = []
        self.notes = []
        self.facts = {}

    def holds(self, inst, detail=None):
        self.instances.append((inst, "HOLDS", detail))

    def violated(self, inst, finding):
        if any(f.key == finding.key for f in self.findings):
            return
        self.instances.append((inst, "VIOLATED", finding.message))
        self.findings.append(finding)

    def note(self, s):
        self.notes.append(s)

    @property
    def n(self):
        return len(self.instances)

    @property
    def n_holds(self):
        return sum(1 for i in self.instances if i[1] == "HOLDS")


class KnownFindings(object):
    def __init__(self, path):
        self.path = path
        self.entries = []
        if os.path.exists(path):
            with open(path) as fh:
                self.entries = json.load(fh).get("findings", [])

    def match(self, prop, finding):
        for e in self.entries:
            if e.get("status") != "open":
                continue
            if prop not in e.get("properties", [e.get("property")]):
                continue
            if e["rule"] != finding.rule:
                continue
            for k in e.get("keys", [e.get("key")] if e.get("key") else []):
                # a key may name the *subject* of the finding (what is evaluated) instead of
                # the function it was confirmed in: the defect moves with the code
                if k.get("subject") and k.get("file") == finding.file and \
                        (finding.extra or {}).get("subject") == k["subject"] and \
                        k.get("construct", finding.construct) == finding.construct:
                    return e
                if k.get("file") == finding.file and k.get("construct") == finding.construct:
                    # coarse constructs (E7) are tied to the function they were confirmed in
                    if k.get("strict_function") and k.get("function") != finding.function:
                        continue
                    return e
        return None

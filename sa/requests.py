"""Verdict of WorkflowConductor.request_workflow_status (rule F9).

After the request event has been pushed through the task machines and the workflow machine,
the tail of request_workflow_status compares the requested status with the status before and
after and decides between "accepted" (silent return) and "rejected" (raise).  That tail is a
loop-free decision over three status values, so it is decided exhaustively: the statements
after the workflow machine's process_event call are interpreted (symx.PathEnumerator) for
every triple (requested, before, after) of statuses, and the outcome is compared with the
specification of the property:

  * the request had no effect (after == before, requested != before): it must be rejected
    with an error, except for the two in-progress pairs the lifecycle documents (paused
    requested while pausing, canceled requested while canceling) and idempotent requests;
  * the request had an effect (after != before): it must not raise, otherwise an error is
    reported for a request whose state change has already been made.

Nothing is executed: the interpreter works on the syntax tree with concrete strings for the
three names; any construct it cannot evaluate makes the rule UNDECIDED (AnalysisError).
"""

import ast

from sa.core import AnalysisError, norm_src, unparse
from sa.guards import callee_name, calls_in
from sa.report import Finding, RuleResult
from sa.symx import PathEnumerator, Sym

RWS = "conducting.WorkflowConductor.request_workflow_status"

# (requested, current) pairs for which "no change" is the documented, accepted outcome: the
# workflow is already on its way there and active tasks still have to drain.
IN_PROGRESS = {("paused", "pausing"), ("canceled", "canceling")}


class _Shim(object):
    """What PathEnumerator needs of a FuncInfo, over a statement list of our choosing."""

    def __init__(self, f, body):
        self.module = f.module
        self.qualname = f.qualname
        self.cls = getattr(f, "cls", None)
        self.node = ast.FunctionDef(name=f.name, args=f.node.args, body=body, decorator_list=[])


def _split(f):
    """(index of the top-level statement holding the workflow machine's process_event call,
    names bound to get_workflow_status() before it, after it)."""
    idx = None
    for i, s in enumerate(f.node.body):
        for c in calls_in(s):
            if callee_name(c) == "process_event" and "WorkflowStateMachine" in unparse(c.func):
                idx = i
    if idx is None:
        raise AnalysisError("request_workflow_status no longer hands the request to "
                            "WorkflowStateMachine.process_event")
    before, after = [], []
    for i, s in enumerate(f.node.body):
        if isinstance(s, ast.Assign) and len(s.targets) == 1 and isinstance(
                s.targets[0], ast.Name) and isinstance(s.value, ast.Call) and \
                callee_name(s.value) == "get_workflow_status":
            (before if i < idx else after).append(s.targets[0].id)
    return idx, before, after


def verdicts(prog, f):
    """{(requested, before, after): 'silent' | 'raise'} for all status triples."""
    idx, before, after = _split(f)
    if not before:
        raise AnalysisError("request_workflow_status no longer records the status before the "
                            "request")
    params = [p for p in f.params if p not in ("self", "cls")]
    if len(params) != 1:
        raise AnalysisError("request_workflow_status signature changed: %s" % (f.params,))
    req = params[0]
    tail = f.node.body[idx + 1:]
    allst = sorted(prog.fold_name("statuses", "ALL_STATUSES"))
    out = {}

    def atomizer(x, env):
        raise AnalysisError("request_workflow_status verdict depends on %s, which is not a "
                            "function of the requested / previous / new status" % (
                                unparse(x.node if isinstance(x, Sym) and x.node is not None else x)
                                if not isinstance(x, Sym) or x.node is not None else repr(x)))

    for s in allst:
        for c in allst:
            for u in allst:
                bind = {req: s, "self.get_workflow_status()": u,
                        "self.workflow_state.status": u}
                for b in before:
                    bind[b] = c
                en = PathEnumerator(prog, _Shim(f, tail), bind, atomizer)
                leaves = en.enumerate()
                if len(leaves) != 1:
                    raise AnalysisError("request_workflow_status verdict is not determined by "
                                        "the three statuses")
                v = leaves[0][0]
                out[(s, c, u)] = "raise" if isinstance(v, Sym) and v.kind == "raise" else "silent"
    return out


def rule_F9(ctx):
    res = RuleResult("F9", "a status request that changed nothing is rejected with an error "
                           "(except the documented in-progress pairs and idempotent requests); "
                           "a request that changed the status is not reported as an error")
    prog = ctx.prog
    f = prog.function(RWS)
    v = verdicts(prog, f)
    allst = sorted(prog.fold_name("statuses", "ALL_STATUSES"))
    res.facts["triples_evaluated"] = len(v)
    for s in allst:
        for c in allst:
            inst = ("no-effect", s, c)
            got = v[(s, c, c)]
            if s == c or (s, c) in IN_PROGRESS:
                # either verdict is within the property; nothing to demand
                res.holds(inst, "idempotent / in progress: %s" % got)
                continue
            if got == "raise":
                res.holds(inst)
            else:
                res.violated(inst, Finding(
                    "F9", f.file, f.qualname, "request %s while %s, status unchanged" % (s, c),
                    "request_workflow_status(%r) on a workflow that is %s and stays %s returns "
                    "silently: a request the lifecycle forbids is not rejected with an error"
                    % (s, c, c), line=f.node.lineno))
    changed_bad = sorted((s, c, u) for (s, c, u), got in v.items() if c != u and got == "raise")
    if changed_bad:
        s, c, u = changed_bad[0]
        res.violated(("effect",), Finding(
            "F9", f.file, f.qualname, "error after a status change",
            "request_workflow_status(%r) raises although the status already changed from %s to "
            "%s (%d such triples): the rejected request has had an effect on the state"
            % (s, c, u, len(changed_bad)), line=f.node.lineno))
    else:
        res.holds(("effect",), "no triple with a status change raises")
    return res

"""setup_cmd: nothing to build (pure stdlib); verifies the interpreter and that /repo parses."""
import sys


def main():
    from sa.core import Program
    p = Program("/repo")
    print("sa: python %s, %d modules parsed, digest %s" % (
        sys.version.split()[0], len(p.modules), p.source_digest[:12]))
    return 0


if __name__ == "__main__":
    sys.exit(main())

"""Three shape rules added after round 3 of the seeded changes (each slip was produced twice,
independently, by different workers):

V3  presence of `join` on the composition path is decided by `is None` / `is not None`, never
    by the truth of the declared value: the schema admits `join: 0` (first inbound branch
    wins), and a truthiness test makes the composer treat that task as an ordinary task - no
    barrier, split bookkeeping for it and all its descendants.
G6  the composer adds an edge only after a look-up that reflects the graph at that moment: a
    call on the graph inside the loop over the transitions, evaluated unconditionally, or a
    local index that was filled from the graph and is kept current in the branch that adds.
    A stale or skipped look-up duplicates the edge of a (task, transition, target) triple
    that occurs twice in one visit (`do: a, b, a`).
J1  a whole-text template render (`from_string(text).render(...)`) happens only under the
    truth of a recogniser result (findall of a block / raw-block recogniser on the text): a
    render of a plain string is not the identity (trailing newline, `{# #}` comments).

Each is a necessary condition of its property only; what is decided and what is not is stated
in the property explanations (sa/props.py).
"""

import ast

from sa.core import AnalysisError, NotFoldable, norm_src, unparse, untag
from sa.effects import expand_alternatives
from sa.guards import FuncGuards, callee_name, calls_in
from sa.report import Finding, RuleResult

MODELS = "specs.native.v1.models"
COMPOSER = "composers.native"


def _f(rule, f, node, construct, msg):
    return Finding(rule, f.file, f.qualname, construct, msg, line=getattr(node, "lineno", None))


# ====================================================================== V3
def _admits_zero(schema):
    """A JSON-schema fragment (folded) that accepts the integer 0."""
    if not isinstance(schema, dict):
        return False
    for k in ("oneOf", "anyOf"):
        if isinstance(schema.get(k), (list, tuple)) and any(_admits_zero(s) for s in schema[k]):
            return True
    t = schema.get("type")
    if t == "integer" or (isinstance(t, (list, tuple)) and "integer" in t):
        mn = schema.get("minimum")
        if mn is None or (isinstance(mn, (int, float)) and mn <= 0):
            return not (schema.get("exclusiveMinimum") is True and mn == 0)
    return False


def _is_attr_read(n, attr):
    if isinstance(n, ast.Attribute) and n.attr == attr and isinstance(n.ctx, ast.Load):
        return True
    return isinstance(n, ast.Call) and isinstance(n.func, ast.Name) and n.func.id == "getattr" \
        and len(n.args) >= 2 and isinstance(n.args[1], ast.Constant) and n.args[1].value == attr


def _truth_context(n, fnode):
    """How the value of expression node n is consumed: 'presence' (compared with None),
    'value' (compared with / passed as a value), 'truth' (its truth decides something)."""
    cur = n
    while True:
        par = getattr(cur, "_parent", None)
        if par is None or par is fnode:
            return "value"
        if isinstance(par, ast.Compare):
            others = [par.left] + list(par.comparators)
            if any(isinstance(o, ast.Constant) and o.value is None for o in others) and all(
                    isinstance(op, (ast.Is, ast.IsNot, ast.Eq, ast.NotEq)) for op in par.ops):
                return "presence"
            return "value"
        if isinstance(par, ast.UnaryOp) and isinstance(par.op, ast.Not):
            return "truth"
        if isinstance(par, ast.BoolOp):
            # `a and b`: every operand but the last is tested; the last is the value of the
            # whole expression - keep climbing for it
            if cur is not par.values[-1]:
                return "truth"
            cur = par
            continue
        if isinstance(par, (ast.If, ast.While, ast.IfExp)) and cur is par.test:
            return "truth"
        if isinstance(par, ast.comprehension) and cur in par.ifs:
            return "truth"
        if isinstance(par, ast.Call) and isinstance(par.func, ast.Name) and par.func.id == "bool" \
                and cur in par.args:
            return "truth"
        if isinstance(par, ast.Return):
            return "returned"
        if isinstance(par, ast.Assign) and len(par.targets) == 1 and isinstance(
                par.targets[0], ast.Name):
            return ("local", par.targets[0].id)
        if isinstance(par, (ast.Call, ast.Subscript, ast.Dict, ast.List, ast.Tuple, ast.keyword,
                            ast.BinOp, ast.Attribute, ast.Expr, ast.Assign, ast.AugAssign)):
            return "value"
        cur = par


def _use_of(node, fn):
    """'presence' | 'value' | 'truth' | 'returned' for the value of `node` in function fn,
    following plain local copies."""
    use = _truth_context(node, fn.node)
    hops = 0
    while isinstance(use, tuple) and hops < 3:
        name = use[1]
        kinds = set()
        for x in ast.walk(fn.node):
            if isinstance(x, ast.Name) and x.id == name and isinstance(x.ctx, ast.Load):
                k = _truth_context(x, fn.node)
                kinds.add("value" if isinstance(k, tuple) else k)
        use = "truth" if "truth" in kinds else ("returned" if "returned" in kinds else (
            "presence" if kinds == {"presence"} else "value"))
        hops += 1
    return use


def _carriers(cands, attr):
    """{name: function} of the functions whose result is the raw value of attribute `attr`
    (has_join: `hasattr(self, 'join') and self.join`), directly or by returning the result of
    another such function."""
    out = {}
    changed = True
    while changed:
        changed = False
        for f in cands:
            if f.name in out:
                continue
            for n in ast.walk(f.node):
                raw = _is_attr_read(n, attr) or (
                    isinstance(n, ast.Call) and callee_name(n) in out)
                if raw and _use_of(n, f) == "returned":
                    out[f.name] = f
                    changed = True
                    break
    return out


def rule_V3(ctx):
    res = RuleResult("V3", "on the composition path the presence of `join` is decided by a test "
                           "against None, not by the truth of the declared value (join: 0 is a "
                           "valid declaration)")
    prog = ctx.prog
    tspec = prog.cls(MODELS + ".TaskSpec")
    if "_schema" not in tspec.attrs:
        raise AnalysisError("TaskSpec._schema vanished")
    sch = prog.fold(tspec.attrs["_schema"], tspec.module, partial=True)
    props_ = sch.get("properties") if isinstance(sch, dict) else None
    if not isinstance(props_, dict) or "join" not in props_:
        raise AnalysisError("TaskSpec schema no longer declares 'join'")
    if not _admits_zero(props_["join"]):
        res.holds(("schema",), "the schema no longer admits join: 0 - truthiness and presence agree")
        return res
    res.holds(("schema",), "join admits 0")
    # functions on the composition path: reachable by name from the composer's entry
    comp = prog.module(COMPOSER)
    models = prog.module(MODELS)
    by_name = {}
    for m in (comp, models):
        for c in m.classes.values():
            for fn in c.methods.values():
                by_name.setdefault(fn.name, []).append(fn)
    roots = [fn for c in comp.classes.values() for fn in c.methods.values()
             if fn.name in ("compose", "_compose_wf_graph")]
    if not roots:
        raise AnalysisError("WorkflowComposer.compose vanished")
    reach, todo = {}, list(roots)
    while todo:
        fn = todo.pop()
        if fn.qualname in reach:
            continue
        reach[fn.qualname] = fn
        for c in calls_in(fn.node):
            for g in by_name.get(callee_name(c), []):
                if g.qualname not in reach and g.name not in ("__init__",):
                    todo.append(g)
    # predicates whose result carries the raw value
    carriers = _carriers([fn for fns in by_name.values() for fn in fns], "join")
    res.facts["value_carrying_predicates"] = sorted(c.qualname for c in carriers.values())
    n = 0
    for q, fn in sorted(reach.items()):
        sites = []
        for node in ast.walk(fn.node):
            if _is_attr_read(node, "join"):
                sites.append((node, "the declared value"))
            elif isinstance(node, ast.Call) and callee_name(node) in carriers and \
                    carriers[callee_name(node)].qualname != q:
                sites.append((node, "%s(), which returns the declared value" % callee_name(node)))
        for node, what in sites:
            n += 1
            use = _use_of(node, fn)
            inst = (q, untag(norm_src(node)))
            if use == "truth":
                res.violated(inst, _f(
                    "V3", fn, node, "truth of join in %s" % fn.name,
                    "%s decides on the truth of %s: `join: 0` (valid, first inbound branch wins) "
                    "is treated as no join at all on the path that composes barriers and splits"
                    % (fn.name, what)))
            else:
                res.holds(inst, str(use))
    if not n:
        raise AnalysisError("no reader of 'join' on the composition path")
    return res


# ====================================================================== G6
GRAPH_LOOKUPS = ("has_transition", "get_transition", "get_next_transitions", "has_tasks",
                 "get_prev_transitions")


def rule_G6(ctx):
    res = RuleResult("G6", "the composer adds a transition only after a look-up that reflects "
                           "the graph at that moment (a call on the graph in the same iteration, "
                           "or an index kept current where the edge is added)")
    prog = ctx.prog
    found = 0
    for f in prog.all_functions():
        if f.module.short != COMPOSER:
            continue
        adds = [c for c in calls_in(f.node) if callee_name(c) == "add_transition"]
        if not adds:
            continue
        fg = FuncGuards(prog, f)
        for add in adds:
            found += 1
            inst = (f.qualname, untag(norm_src(add)))
            loop = add
            while loop is not None and not isinstance(loop, (ast.For, ast.While)):
                loop = getattr(loop, "_parent", None)
            if loop is None:
                res.holds(inst, "not in a loop")
                continue
            in_loop = {id(x) for x in ast.walk(loop)}
            graph = unparse(add.func.value) if isinstance(add.func, ast.Attribute) else None
            alts = expand_alternatives(f, fg, fg.atoms(add))
            verdict, why = None, "no look-up of the graph decides whether the edge is added"
            for alt in alts:
                ok_alt = False
                for a in alt:
                    if len(a) < 2 or not isinstance(a[1], str):
                        continue
                    if a[0] in ("in", "notin") and len(a) > 2 and isinstance(a[2], tuple) and \
                            len(a[2]) == 2 and a[2][0] == "src" and str(a[2][1]).isidentifier():
                        ok, w = _index_current(f, a[2][1], loop, in_loop, graph, add)
                        if ok:
                            ok_alt = True
                            break
                        why = w or why
                    names = _names_in(a[1])
                    ok, w = _fresh_lookup(f, names, a[1], loop, in_loop, graph, add, 0)
                    if ok:
                        ok_alt = True
                        break
                    if w:
                        why = w
                if not ok_alt:
                    verdict = False
                    break
                verdict = True
            if verdict:
                res.holds(inst)
            else:
                res.violated(inst, _f(
                    "G6", f, add, "look-up before add_transition",
                    "%s: a (task, transition, target) triple that occurs twice within one visit "
                    "gets two edges" % why))
    if not found:
        raise AnalysisError("the composer no longer calls add_transition")
    return res


def _names_in(text):
    try:
        return {x.id for x in ast.walk(ast.parse(text, mode="eval")) if isinstance(x, ast.Name)}
    except SyntaxError:
        return set()


def _fresh_lookup(f, names, text, loop, in_loop, graph, add, depth):
    """The guard expression `text` (over local `names`) is, or is computed from, a look-up that
    is current when the edge is added.  (ok, reason-if-not)."""
    try:
        e = ast.parse(text, mode="eval").body
    except SyntaxError:
        return False, None
    # a call on the graph written in the guard itself
    for c in ast.walk(e):
        if isinstance(c, ast.Call) and callee_name(c) in GRAPH_LOOKUPS:
            return True, None
    why = None
    for nm in names:
        ds = [d for d in ast.walk(f.node) if isinstance(d, ast.Assign) and any(
            isinstance(t, ast.Name) and t.id == nm for t in d.targets)]
        ds = [d for d in ds if not (isinstance(d.value, ast.Constant) and d.value.value is None)]
        if not ds:
            continue
        for d in ds:
            v = d.value
            call = v if isinstance(v, ast.Call) else None
            # x = idx.get(k) / k in idx  ->  index look-up
            idx = None
            if call is not None and callee_name(call) in ("get",) and isinstance(
                    call.func, ast.Attribute) and isinstance(call.func.value, ast.Name):
                idx = call.func.value.id
            if isinstance(v, ast.Compare) and len(v.ops) == 1 and isinstance(
                    v.ops[0], (ast.In, ast.NotIn)) and isinstance(v.comparators[0], ast.Name):
                idx = v.comparators[0].id
            if idx is not None:
                ok, w = _index_current(f, idx, loop, in_loop, graph, add)
                if ok:
                    return True, None
                why = w
                continue
            if call is not None and callee_name(call) in GRAPH_LOOKUPS:
                if id(d) not in in_loop:
                    why = "the look-up %s is made before the loop over the transitions, not " \
                          "for each of them" % untag(norm_src(d))
                    continue
                return True, None
            lookups = [c for c in ast.walk(v) if isinstance(c, ast.Call)
                       and callee_name(c) in GRAPH_LOOKUPS]
            if lookups:
                # the look-up is an operand of something else: and / or / ifexp skip it
                if any(isinstance(x, (ast.BoolOp, ast.IfExp)) for x in ast.walk(v)):
                    why = "the look-up is skipped on some visits (%s)" % untag(norm_src(d))
                    continue
                if id(d) in in_loop:
                    return True, None
                why = "the look-up %s is made before the loop over the transitions" % untag(
                    norm_src(d))
                continue
            if depth < 2 and isinstance(v, (ast.Name, ast.Subscript, ast.Attribute, ast.Compare,
                                            ast.UnaryOp, ast.BoolOp)):
                sub = {x.id for x in ast.walk(v) if isinstance(x, ast.Name)} - {nm}
                ok, w = _fresh_lookup(f, sub, unparse(v), loop, in_loop, graph, add, depth + 1)
                if ok:
                    return True, None
                why = w or why
    # membership test written in the guard: k in idx
    for c in ast.walk(e):
        if isinstance(c, ast.Compare) and len(c.ops) == 1 and isinstance(
                c.ops[0], (ast.In, ast.NotIn)) and isinstance(c.comparators[0], ast.Name):
            ok, w = _index_current(f, c.comparators[0].id, loop, in_loop, graph, add)
            if ok:
                return True, None
            why = w or why
    return False, why


def _index_current(f, idx, loop, in_loop, graph, add):
    """Local index `idx` is filled from the graph and updated in the block that adds the edge."""
    ds = [d for d in ast.walk(f.node) if isinstance(d, ast.Assign) and any(
        isinstance(t, ast.Name) and t.id == idx for t in d.targets)]
    from_graph = any(callee_name(c) in GRAPH_LOOKUPS or (
        graph and unparse(c.func).startswith(graph + "."))
        for d in ds for c in ast.walk(d.value) if isinstance(c, ast.Call))
    # (an index that starts empty on a first visit is fine: what matters within one visit is
    # that it is kept current where the edge is added)
    # the block holding the add: its statements (and those after it in the same block)
    blk = add
    while blk is not None and not isinstance(getattr(blk, "_parent", None),
                                             (ast.If, ast.For, ast.While, ast.FunctionDef)):
        blk = getattr(blk, "_parent", None)
    par = getattr(blk, "_parent", None)
    body = None
    for fld in ("body", "orelse"):
        lst = getattr(par, fld, None)
        if isinstance(lst, list) and blk in lst:
            body = lst
    for s in body or []:
        for n in ast.walk(s):
            if isinstance(n, ast.Assign) and any(
                    isinstance(t, ast.Subscript) and isinstance(t.value, ast.Name)
                    and t.value.id == idx for t in n.targets):
                return True, None
            if isinstance(n, ast.Call) and callee_name(n) in ("add", "append", "update", "setdefault") \
                    and isinstance(n.func, ast.Attribute) and isinstance(
                        n.func.value, ast.Name) and n.func.value.id == idx:
                return True, None
    return False, "the index %s is taken before the loop and not updated where the edge is " \
                  "added" % untag(idx)


# ====================================================================== J1
def rule_J1(ctx):
    res = RuleResult("J1", "a whole-text template render happens only when a recogniser found a "
                           "block (or a masked raw block) in the text")
    prog = ctx.prog
    n = 0
    for f in prog.all_functions():
        if not f.module.short.startswith("expressions."):
            continue
        renders = [c for c in calls_in(f.node) if callee_name(c) == "render" and isinstance(
            c.func, ast.Attribute) and isinstance(c.func.value, ast.Call)
            and callee_name(c.func.value) == "from_string"]
        if not renders:
            continue
        fg = FuncGuards(prog, f)
        for c in renders:
            n += 1
            inst = (f.qualname, untag(norm_src(c)))
            alts = expand_alternatives(f, fg, fg.atoms(c))
            bad = None
            for alt in alts:
                gated = False
                for a in alt:
                    if a[0] != "truthy" or not isinstance(a[1], str):
                        continue
                    for nm in _names_in(a[1]):
                        ds = [d for d in ast.walk(f.node) if isinstance(d, ast.Assign) and any(
                            isinstance(t, ast.Name) and t.id == nm for t in d.targets)]
                        if ds and all(isinstance(d.value, ast.Call) and callee_name(d.value) in (
                                "findall", "search", "finditer", "match") for d in ds):
                            gated = True
                    if any(k in a[1] for k in (".findall(", ".search(")):
                        gated = True
                if not gated:
                    bad = alt
                    break
            if bad is None:
                res.holds(inst)
            else:
                res.violated(inst, _f(
                    "J1", f, c, "template render " + untag(norm_src(c)),
                    "the text is rendered as a template although no recogniser found a block in "
                    "it (guards: %s): a plain string value loses its trailing newline and "
                    "anything that looks like a comment" % (
                        ", ".join(untag(str(x[1])) for x in bad if len(x) > 1) or "none")))
    if not n:
        raise AnalysisError("no template render found in the expression evaluators")
    return res


# ====================================================================== F13 / F14 / M2 / P15
# Added after round 4 (well-meant functional changes with one flaw).
UTS = "conducting.WorkflowConductor.update_task_state"


def _own_guards(e, f):
    return [a for q, a in e.guards if q == f.qualname]


def rule_F13(ctx):
    """The workflow output is written once, on request, for a completed workflow: the only
    writers of WorkflowConductor._outputs are construction / restore, the reset to None, and
    render_workflow_output under 'status is completed and nothing rendered yet' - and the
    conductor never calls render_workflow_output on its own (what is rendered then is frozen
    by the write-once guard although tasks may still report and publish)."""
    from sa.effects import effects_of, status_set, dotted
    res = RuleResult("F13", "the workflow output is written only by render_workflow_output for "
                            "a completed workflow with no output yet (and reset / restore), and "
                            "the conductor never renders it on its own")
    prog = ctx.prog
    completed = status_set(ctx, "COMPLETED_STATUSES")
    seen = set()
    for e in effects_of(ctx):
        if e.path[:2] != ("WC", "_outputs"):
            continue
        key = (e.func.qualname, untag(norm_src(e.node)))
        if key in seen:
            continue
        seen.add(key)
        inst = ("writer",) + key
        fn = e.func.name
        if fn in ("__init__", "restore"):
            res.holds(inst, "construction / restore")
            continue
        val = e.node.value if isinstance(e.node, ast.Assign) else None
        if isinstance(val, ast.Constant) and val.value is None:
            res.holds(inst, "reset")
            continue
        if fn == "render_workflow_output":
            fg = FuncGuards(prog, e.func)
            alts = expand_alternatives(e.func, fg, fg.atoms(e.node))
            ok = all(any(a[0] == "in" and a[2] == completed for a in alt) and any(
                a[0] == "falsy" and "_outputs" in str(a[1]) for a in alt) for alt in alts)
            if ok:
                res.holds(inst)
                continue
            why = "render_workflow_output stores an output without requiring a completed " \
                  "workflow that has no output yet"
        else:
            why = "%s writes the workflow output" % e.func.qualname
        res.violated(inst, _f(
            "F13", e.func, e.node, "writer of _outputs in %s" % fn,
            "%s: an output stored early is kept by the write-once guard of "
            "render_workflow_output, so what is published afterwards never reaches the output"
            % why))
    if not seen:
        raise AnalysisError("no writer of WorkflowConductor._outputs found")
    for f in prog.all_functions():
        if f.module.short != "conducting" or f.name == "render_workflow_output":
            continue
        for c in calls_in(f.node):
            if callee_name(c) == "render_workflow_output":
                res.violated(("caller", f.qualname), _f(
                    "F13", f, c, "call of render_workflow_output in %s" % f.name,
                    "%s renders the workflow output on its own: the result is frozen by the "
                    "write-once guard while tasks may still report and publish (a failed "
                    "workflow with siblings in flight, clean-up tasks beside a fail command)"
                    % f.name))
    res.holds(("caller", "none in conducting"))
    return res


def rule_F14(ctx):
    """A staged entry leaves staging only when update_task_state handles a report of that very
    task.  The conductor keeps no record of what get_next_tasks handed out, so any other
    removal may take away an offered task (its report is then rejected) or the only record of
    a partially satisfied join; entries that are not ready were never offered, so a removal
    guarded by `not entry['ready']` is accepted."""
    from sa.effects import effects_of
    res = RuleResult("F14", "staged entries are removed only by update_task_state for the "
                            "reporting task itself (elsewhere only entries that are not ready)")
    prog = ctx.prog
    uts = prog.function(UTS)
    own = [p for p in uts.params if p not in ("self", "cls")][:2]
    n = 0
    seen = set()
    for e in effects_of(ctx):
        if e.path != ("WS", "staged") and e.path != ("WS", "staged", "*"):
            continue
        if e.op not in ("remove", "pop", "clear", "delitem", "setattr", "popitem", "discard"):
            continue
        entry = e.entry()
        top = e.stack[0][1] if e.stack else e.node
        key = (entry.qualname, e.func.qualname, untag(norm_src(top)))
        if key in seen:
            continue
        seen.add(key)
        n += 1
        inst = key
        if e.op == "setattr" and (e.func.name in ("__init__", "deserialize")):
            res.holds(inst, "construction")
            continue
        if entry.module.short == "conducting" and entry.cls is not None and \
                entry.cls.name == "WorkflowState":
            res.holds(inst, "the primitive itself")
            continue
        last = e.stack[-1] if e.stack else None
        if last is not None and last[0].qualname == UTS and e.func.name == "remove_staged_task" \
                and isinstance(last[1], ast.Call) and \
                [unparse(a) for a in last[1].args[:2]] == own:
            # called by update_task_state (possibly re-entered for a retry or an engine
            # command) with its own (task id, route)
            res.holds(inst, "report of the task itself")
            continue
        atoms = _own_guards(e, entry) + _own_guards(e, e.func)
        if any(a[0] == "falsy" and "'ready'" in str(a[1]).replace('"', "'") for a in atoms):
            res.holds(inst, "only entries that are not ready")
            continue
        res.violated(inst, Finding(
            "F14", entry.file, entry.qualname, "removal from staging in %s" % e.func.name,
            "%s removes staged entries (%s) other than the one whose report is being handled: "
            "a task that get_next_tasks already handed out loses its entry (its report is "
            "rejected), a partially satisfied join loses the only record of its arrivals"
            % (entry.name, untag(norm_src(top))), line=getattr(top, "lineno", None),
            chain=e.chain()))
    if not n:
        raise AnalysisError("no removal from WorkflowState.staged found")
    return res


def rule_M2(ctx):
    """The context delta appended for a transition is the one finalize_context returned: the
    variables the transition published, all of them, whatever their values (dropping the ones
    that 'did not change' lets an older value of another branch win at a join)."""
    res = RuleResult("M2", "the context delta stored for a transition is exactly what "
                           "finalize_context published (no filtering in between)")
    prog = ctx.prog
    f = prog.function(UTS)
    apps = [c for c in calls_in(f.node) if callee_name(c) == "append" and isinstance(
        c.func, ast.Attribute) and unparse(c.func.value).endswith("contexts")]
    if not apps:
        raise AnalysisError("update_task_state no longer appends to the stored contexts")
    for c in apps:
        inst = (f.qualname, untag(norm_src(c)))
        arg = c.args[0] if c.args else None
        bad = _not_published(f, arg, set())
        if bad is None:
            res.holds(inst)
        else:
            res.violated(inst, _f(
                "M2", f, c, "stored context delta",
                "the delta appended to the stored contexts is not what finalize_context "
                "returned: %s - a published variable that is dropped or altered here changes "
                "which value wins where branches meet" % bad))
    # the producer: what finalize_context returns as the published delta is the dict its
    # publish loop filled, never a second value derived from it by comparing with the context
    fc = prog.find_function(MODELS + ".TaskSpec.finalize_context")
    if fc is None:
        raise AnalysisError("TaskSpec.finalize_context vanished")
    rets = [r for r in ast.walk(fc.node) if isinstance(r, ast.Return) and isinstance(
        r.value, ast.Tuple) and len(r.value.elts) >= 2]
    if not rets:
        raise AnalysisError("finalize_context no longer returns (out_ctx, new_ctx, errors)")
    for r in rets:
        el = r.value.elts[1]
        inst = (fc.qualname, "returned delta")
        if not isinstance(el, ast.Name):
            res.violated(inst, _f("M2", fc, r, "returned delta",
                                  "finalize_context returns %s as the published delta instead "
                                  "of the dict its publish loop filled" % untag(unparse(el))))
            continue
        ds = [d for d in ast.walk(fc.node) if isinstance(d, ast.Assign) and any(
            isinstance(t, ast.Name) and t.id == el.id for t in d.targets)]
        odd = [d for d in ds if not ((isinstance(d.value, ast.Dict) and not d.value.keys) or (
            isinstance(d.value, ast.Call) and callee_name(d.value) == "dict"
            and not d.value.args and not d.value.keywords))]
        if odd:
            res.violated(inst, _f(
                "M2", fc, odd[0], "returned delta",
                "the published delta is re-assigned (%s) after the publish loop filled it: "
                "a published variable that is dropped or altered here changes which value "
                "wins where branches meet, and what the next task sees"
                % untag(norm_src(odd[0]))))
        else:
            res.holds(inst)
    return res


COPIES = ("deepcopy", "copy", "dict")


def _not_published(f, e, seen):
    """None when expression e is the second result of finalize_context (possibly copied);
    else a phrase saying what it is."""
    if isinstance(e, ast.Call) and callee_name(e) in COPIES and e.args:
        return _not_published(f, e.args[0], seen)
    if not isinstance(e, ast.Name):
        return "it is %s" % untag(unparse(e)) if e is not None else "nothing"
    if e.id in seen:
        return None
    seen.add(e.id)
    ds = []
    for n in ast.walk(f.node):
        if isinstance(n, ast.Assign):
            for t in n.targets:
                if isinstance(t, ast.Name) and t.id == e.id:
                    ds.append((n, None))
                elif isinstance(t, ast.Tuple):
                    for i, x in enumerate(t.elts):
                        if isinstance(x, ast.Name) and x.id == e.id:
                            ds.append((n, i))
        elif isinstance(n, (ast.AugAssign,)) and isinstance(n.target, ast.Name) and \
                n.target.id == e.id:
            return "%s is modified in place (%s)" % (untag(e.id), untag(norm_src(n)))
        elif isinstance(n, ast.Call) and callee_name(n) in ("pop", "update", "clear", "setdefault",
                                                             "popitem") and isinstance(
                n.func, ast.Attribute) and isinstance(n.func.value, ast.Name) and \
                n.func.value.id == e.id:
            return "%s is modified in place (%s)" % (untag(e.id), untag(norm_src(n)))
        elif isinstance(n, (ast.Assign, ast.Delete)):
            pass
    for n in ast.walk(f.node):
        tg = n.targets if isinstance(n, (ast.Assign, ast.Delete)) else []
        for t in tg:
            if isinstance(t, ast.Subscript) and isinstance(t.value, ast.Name) and t.value.id == e.id:
                return "%s is modified in place (%s)" % (untag(e.id), untag(norm_src(n)))
    if not ds:
        return "%s has no definition" % untag(e.id)
    for n, i in ds:
        v = n.value
        if isinstance(v, ast.Constant) and v.value is None:
            continue
        if i is not None:
            if isinstance(v, ast.Call) and callee_name(v) == "finalize_context" and i == 1:
                continue
            if isinstance(v, ast.Tuple) and i < len(v.elts):
                w = _not_published(f, v.elts[i], seen)
                if w is None:
                    continue
                return w
            return "%s is component %d of %s" % (untag(e.id), i, untag(unparse(v))[:80])
        w = _not_published(f, v, seen) if isinstance(v, (ast.Name, ast.Call)) and (
            isinstance(v, ast.Name) or callee_name(v) in COPIES) else \
            "%s = %s" % (untag(e.id), untag(unparse(v))[:80])
        if w is not None:
            return w
    return None


def rule_P15(ctx):
    """When a task completes (the machine moved it into a completed status), every outgoing
    transition of the graph is evaluated: the block that does it carries no further condition
    and iterates exactly graph.get_next_transitions(task).  Skipping it 'because nothing will
    be scheduled anyway' loses terminal marks, published variables and the staged successors a
    later rerun continues from."""
    from sa.effects import status_set
    from sa.paths import fmt_atoms
    res = RuleResult("P15", "the transitions of a completed task are always all evaluated: no "
                            "condition beyond 'completed and changed', and the loop runs over "
                            "graph.get_next_transitions(task) itself")
    prog = ctx.prog
    f = prog.function(UTS)
    fg = FuncGuards(prog, f)
    completed = status_set(ctx, "COMPLETED_STATUSES")
    loops = []
    for n in ast.walk(f.node):
        if not isinstance(n, ast.For):
            continue
        it = n.iter
        srcs = [it]
        if isinstance(it, ast.Name):
            srcs = [d.value for d in ast.walk(f.node) if isinstance(d, ast.Assign) and any(
                isinstance(t, ast.Name) and t.id == it.id for t in d.targets)]
        if any(isinstance(s_, ast.Call) and callee_name(s_) == "get_next_transitions"
               for s_ in srcs):
            loops.append((n, srcs))
    if not loops:
        raise AnalysisError("update_task_state: loop over graph.get_next_transitions not found")
    for lp, srcs in loops:
        inst = (f.qualname, "transitions loop")
        others = [s_ for s_ in srcs if not (isinstance(s_, ast.Call)
                                           and callee_name(s_) == "get_next_transitions")]
        if others:
            res.violated(inst + ("iterated",), _f(
                "P15", f, lp, "transitions iterated",
                "the loop over the task's transitions may run over %s instead of "
                "graph.get_next_transitions(task): transitions of a completed task are skipped"
                % ", ".join(untag(unparse(o))[:60] for o in others)))
            continue
        alts = expand_alternatives(f, fg, _atoms_wo_raises(fg, lp))
        bad = None
        for alt in alts:
            extra = []
            for a in alt:
                if a[0] == "in" and a[2] == completed:
                    continue
                if a[0] == "!=" and isinstance(a[2], tuple) and "status" in str(a[1]):
                    continue
                if a[0] == "truthy" and untag(str(a[1])) in ("task_transitions",):
                    continue
                extra.append(a)
            if extra:
                bad = extra
                break
        # ... nor is a single transition skipped because of the workflow status (a `continue`
        # in the body that depends on it): the status decides what is *offered*, not what is
        # evaluated, published and staged
        base_ = set(fg.atoms(lp.body[0])) if lp.body else set()
        for c_ in ast.walk(lp):
            if isinstance(c_, ast.Continue):
                own_ = [a for a in fg.atoms(c_) if a not in base_]
                hot = [a for a in own_ if "get_workflow_status" in str(a[1])
                       or "workflow_state.status" in str(a[1]) or any(
                           "get_workflow_status" in unparse(d.value) for d in ast.walk(f.node)
                           if isinstance(d, ast.Assign) and str(a[1]).isidentifier() and any(
                               isinstance(t, ast.Name) and t.id == a[1] for t in d.targets))]
                if hot:
                    res.violated(inst + ("skip",), _f(
                        "P15", f, c_, "transition skipped on the workflow status",
                        "a transition of a completed task is skipped when %s: its publishes and "
                        "the staged successor a later rerun continues from are lost"
                        % ", ".join(fmt_atoms(hot))))
        if bad is None:
            res.holds(inst)
        else:
            res.violated(inst, _f(
                "P15", f, lp, "condition on the transitions loop",
                "the transitions of a completed task are evaluated only when %s: otherwise "
                "its terminal mark, its published variables and its staged successors are "
                "lost (a later rerun continues from nothing)" % ", ".join(fmt_atoms(bad))))
    return res


def _atoms_wo_raises(fg, node):
    from sa.paths import _atoms_wo_validation
    return _atoms_wo_validation(fg, node)


# ====================================================================== P16
def rule_P16(ctx):
    """Every new execution record of a task with a retry policy gets its retry entry (count,
    delay, tally 0) by evaluating the policy against the contexts this very execution starts
    from: in add_task_state the call of setup_retry_in_task_state is conditional on 'the task
    has a retry policy' and nothing else, and nothing else stores the record's 'retry' key
    there.  A retry entry taken over from an earlier record of the same task carries the count
    and delay of an earlier visit of a loop."""
    from sa.paths import fmt_atoms
    res = RuleResult("P16", "a new task record's retry entry is always evaluated afresh from "
                            "the record's own inbound contexts")
    prog = ctx.prog
    f = prog.function("conducting.WorkflowConductor.add_task_state")
    fg = FuncGuards(prog, f)
    calls = [c for c in calls_in(f.node) if callee_name(c) == "setup_retry_in_task_state"]
    if not calls:
        raise AnalysisError("add_task_state no longer sets up the retry entry")
    for c in calls:
        inst = (f.qualname, untag(norm_src(c)))
        alts = expand_alternatives(f, fg, _atoms_wo_raises(fg, c))
        bad = None
        for alt in alts:
            extra = [a for a in alt if not (a[0] == "truthy" and "task_has_retry" in str(a[1]))]
            if extra:
                bad = extra
                break
        if bad is None:
            res.holds(inst)
        else:
            res.violated(inst, _f(
                "P16", f, c, "condition on the retry set-up",
                "the retry entry of a new record is evaluated only when %s: otherwise the "
                "record runs with a count / delay that was not evaluated from its own contexts"
                % ", ".join(fmt_atoms(bad))))
    for n in ast.walk(f.node):
        if isinstance(n, ast.Assign) and any(
                isinstance(t, ast.Subscript) and isinstance(t.slice, ast.Constant)
                and t.slice.value == "retry" for t in n.targets):
            res.violated((f.qualname, "store", untag(norm_src(n))), _f(
                "P16", f, n, "store of the retry entry",
                "add_task_state stores a retry entry itself (%s) instead of having it evaluated "
                "from the record's inbound contexts" % untag(norm_src(n))))
    return res


# ====================================================================== G7
G7_SCOPE = ("conducting", "machines", "composers.native", "specs.native.v1.models", "specs.base")


def rule_G7(ctx):
    """No per-iteration value is carried into the next iteration by accident.  A local that is
    initialised before a loop, assigned inside it *under a condition* a value computed from the
    loop variable, never re-initialised at the top of the body, and read inside the loop outside
    that condition, holds - on an iteration where the condition is false - what an earlier
    iteration left there (the retry delay of the previous staged entry, say).  Flags (constants),
    accumulators (+=, append) and values only read after the loop are something else."""
    res = RuleResult("G7", "no loop-carried per-iteration value: a local set conditionally from "
                           "the loop variable is not read, in the same loop, outside that "
                           "condition")
    prog = ctx.prog
    n = 0
    for f in prog.all_functions():
        if f.module.short not in G7_SCOPE:
            continue
        fg = None
        for loop in ast.walk(f.node):
            if not isinstance(loop, ast.For):
                continue
            lvars = {x.id for x in ast.walk(loop.target) if isinstance(x, ast.Name)}
            if not lvars:
                continue
            # names derived from the loop variable inside the body
            dep = set(lvars)
            for _ in range(3):
                for a_ in ast.walk(loop):
                    if isinstance(a_, ast.Assign) and any(
                            isinstance(x, ast.Name) and x.id in dep for x in ast.walk(a_.value)):
                        for t_ in a_.targets:
                            if isinstance(t_, ast.Name):
                                dep.add(t_.id)
            in_loop = {id(x) for b in loop.body for x in ast.walk(b)}
            for d in ast.walk(loop):
                if not (isinstance(d, ast.Assign) and id(d) in in_loop and len(d.targets) == 1
                        and isinstance(d.targets[0], ast.Name)):
                    continue
                v = d.targets[0].id
                if v in lvars or isinstance(d.value, ast.Constant):
                    continue
                if any(isinstance(x, ast.Name) and x.id == v for x in ast.walk(d.value)):
                    continue  # built from its own previous value: an accumulator, carried on purpose
                if not any(isinstance(x, ast.Name) and x.id in dep and x.id != v
                           for x in ast.walk(d.value)):
                    continue
                # initialised before the loop, in the same function
                inits = [i for i in ast.walk(f.node) if isinstance(i, ast.Assign) and any(
                    isinstance(t, ast.Name) and t.id == v for t in i.targets)
                    and id(i) not in in_loop and i._ord < loop._ord]
                if not inits:
                    continue
                # every in-loop assignment of v is conditional (relative to the loop body)
                fg = fg or FuncGuards(prog, f)
                base = set(fg.atoms(loop.body[0])) if loop.body else set()
                defs = [x for x in ast.walk(loop) if isinstance(x, ast.Assign) and id(x) in in_loop
                        and any(isinstance(t, ast.Name) and t.id == v for t in x.targets)]
                if any(not (set(fg.atoms(x)) - base) and _in_body_directly(loop, x) for x in defs):
                    continue  # (re)assigned unconditionally on every iteration
                if _assigned_on_all_paths(loop.body, v, d):
                    continue  # every path through the body assigns it before it is read
                if any(isinstance(y, ast.Name) and y.id == v for x in defs for y in ast.walk(x.value)):
                    continue  # some assignment builds on the previous value: an accumulator
                cond = set(fg.atoms(d)) - base
                if not cond:
                    continue
                if any(v in _names_in(str(a[1])) for a in cond if len(a) > 1):
                    continue  # "initialise on first use": the condition is about the local itself
                n += 1
                inst = (f.qualname, untag(v), untag(norm_src(loop))[:60])
                stale = None
                for u in ast.walk(loop):
                    if isinstance(u, ast.Name) and u.id == v and isinstance(u.ctx, ast.Load) \
                            and id(u) in in_loop and u._ord > d._ord:
                        ug = set(fg.atoms(u)) - base
                        if not cond <= ug:
                            stale = u
                            break
                if stale is None:
                    res.holds(inst)
                else:
                    res.violated(inst, _f(
                        "G7", f, stale, "loop-carried value %s" % untag(v),
                        "%s is set from the loop variable only when %s, is not reset at the top "
                        "of the loop body, and is read here on every iteration: an iteration "
                        "for which the condition is false uses the value an earlier iteration "
                        "left behind" % (untag(v), ", ".join(str(untag(str(a[1]))) for a in cond))))
    res.facts["candidates"] = n
    if not n:
        res.holds(("no conditional per-iteration local",))
    return res


def _assigned_on_all_paths(stmts, v, upto=None):
    """Some statement of the list assigns v whatever branch is taken (an assignment, or an if
    both arms of which do) - looked for up to and including the statement that holds `upto`."""
    for s_ in stmts:
        if isinstance(s_, ast.Assign) and any(
                isinstance(t, ast.Name) and t.id == v for t in s_.targets):
            return True
        if isinstance(s_, ast.If) and s_.orelse and _assigned_on_all_paths(s_.body, v) and \
                _assigned_on_all_paths(s_.orelse, v):
            return True
        if upto is not None and any(x is upto for x in ast.walk(s_)):
            return False
    return False


def _in_body_directly(loop, stmt):
    return any(stmt is s for s in loop.body)


# ====================================================================== M3
def rule_M3(ctx):
    """A context that is evaluated for several transitions is not changed by the first one: a
    function that merges into one of its parameters (merge_dicts writes into its first
    argument) is, when called inside a loop, handed a fresh copy on every iteration - never a
    value that lives across iterations.  Otherwise what one transition publishes is visible to
    the criteria and publishes of the next transition of the same task."""
    res = RuleResult("M3", "a function that merges into a parameter receives a fresh copy at "
                           "every call inside a loop")
    prog = ctx.prog
    scope = ("conducting", "specs.native.v1.models", "specs.base")
    funcs = [f for f in prog.all_functions() if f.module.short in scope]
    mutators = {}   # function name -> set of parameter positions (without self)
    for f in funcs:
        params = [p for p in f.params if p not in ("self", "cls")]
        for c in calls_in(f.node):
            if callee_name(c) != "merge_dicts" or not c.args:
                continue
            a0 = c.args[0]
            if isinstance(a0, ast.Name) and a0.id in params:
                # still the parameter itself: not re-bound before the call
                rebound = any(isinstance(d, ast.Assign) and any(
                    isinstance(t, ast.Name) and t.id == a0.id for t in d.targets)
                    and d._ord < c._ord for d in ast.walk(f.node))
                if not rebound:
                    mutators.setdefault(f.name, set()).add(params.index(a0.id))
    res.facts["functions_merging_into_a_parameter"] = sorted(mutators)
    n = 0
    for f in funcs:
        for c in calls_in(f.node):
            name = callee_name(c)
            if name not in mutators or name == f.name:
                continue
            loop = c
            while loop is not None and not isinstance(loop, (ast.For, ast.While)):
                loop = getattr(loop, "_parent", None)
            if loop is None:
                continue
            in_loop = {id(x) for x in ast.walk(loop)}
            for i in sorted(mutators[name]):
                arg = c.args[i] if i < len(c.args) else None
                if arg is None:
                    continue
                n += 1
                inst = (f.qualname, untag(norm_src(c))[:70], i)
                if isinstance(arg, ast.Call) and callee_name(arg) in ("deepcopy", "copy", "dict"):
                    res.holds(inst, "fresh copy")
                    continue
                if isinstance(arg, ast.Name):
                    ds = [d for d in ast.walk(f.node) if isinstance(d, ast.Assign) and any(
                        isinstance(t, ast.Name) and t.id == arg.id for t in d.targets)]
                    fresh = ds and all(id(d) in in_loop and isinstance(d.value, ast.Call)
                                       and callee_name(d.value) in ("deepcopy", "copy", "dict")
                                       for d in ds)
                    if fresh:
                        res.holds(inst, "copied inside the loop")
                        continue
                res.violated(inst, _f(
                    "M3", f, c, "shared argument of %s()" % name,
                    "%s() merges into its argument %d, and inside this loop it is handed %s, "
                    "which lives across the iterations: what one transition publishes is seen "
                    "by the criteria and publishes of the next transition of the same task"
                    % (name, i + 1, untag(unparse(arg))[:60])))
    if not n:
        res.holds(("no call of a merging function inside a loop",))
    return res

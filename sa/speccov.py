"""Coverage / agreement rules for inspection: S2 (inspection is wired), S3 (every
expression-bearing property is tracked by the context inspection)."""

import ast

from sa.core import AnalysisError, ClassRef, NotFoldable, Opaque, norm_src, unparse, untag
from sa.guards import callee_name, calls_in
from sa.report import Finding, RuleResult

MODELS = "specs.native.v1.models"


def _f(rule, f, node, construct, msg):
    return Finding(rule, f.file, f.qualname, construct, msg, line=getattr(node, "lineno", None))


def rule_S2(ctx):
    res = RuleResult("S2", "inspection is wired: inspect() runs and reports the four "
                           "inspections, inspect_semantics runs every detector, engine command "
                           "names are reserved")
    prog = ctx.prog
    base = prog.cls("specs.base.Spec")
    insp = base.methods.get("inspect")
    if insp is None:
        raise AnalysisError("specs.base.Spec.inspect vanished")
    # returned dict
    rets = [r.value.id for r in ast.walk(insp.node) if isinstance(r, ast.Return)
            and isinstance(r.value, ast.Name)]
    parts = [m for m in base.methods if m.startswith("inspect_")]
    if len(parts) < 4:
        raise AnalysisError("fewer than four inspect_* methods on Spec")
    for part in sorted(parts):
        inst = ("inspect", part)
        calls = [c for c in calls_in(insp.node) if callee_name(c) == part]
        if not calls:
            res.violated(inst, _f("S2", insp, insp.node, "call of %s" % part,
                                  "Spec.inspect() no longer runs %s()" % part))
            continue
        # result flows into errors[<key>] = ...
        names = set()
        for n in ast.walk(insp.node):
            if isinstance(n, ast.Assign) and any(c in list(calls_in(n.value)) for c in calls):
                for t in n.targets:
                    for x in ast.walk(t):
                        if isinstance(x, ast.Name):
                            names.add(x.id)
        changed = True
        while changed:
            changed = False
            for n in ast.walk(insp.node):
                if isinstance(n, ast.Assign) and {x.id for x in ast.walk(n.value)
                                                   if isinstance(x, ast.Name)} & names:
                    for t in n.targets:
                        if isinstance(t, ast.Name) and t.id not in names:
                            names.add(t.id)
                            changed = True
        stored = False
        for n in ast.walk(insp.node):
            if isinstance(n, ast.Assign) and isinstance(n.targets[0], ast.Subscript) and isinstance(
                    n.targets[0].value, ast.Name) and n.targets[0].value.id in rets and isinstance(
                    n.value, ast.Name) and n.value.id in names:
                # guarded only by the result's own truthiness
                par = getattr(n, "_parent", None)
                if isinstance(par, ast.If) and isinstance(par.test, ast.Name) and par.test.id in names:
                    stored = True
        if stored:
            res.holds(inst)
        else:
            res.violated(inst, _f("S2", insp, calls[0], "result of %s" % part,
                                  "the result of %s() is not put into the report returned by "
                                  "inspect()" % part))
    # detectors
    tms = prog.cls(MODELS + ".TaskMappingSpec")
    sem = tms.methods.get("inspect_semantics")
    if sem is None:
        raise AnalysisError("TaskMappingSpec.inspect_semantics vanished")
    dets = sorted(m for m in tms.methods if m.startswith("detect_"))
    if len(dets) < 4:
        raise AnalysisError("fewer than four detect_* methods on TaskMappingSpec")
    ret = [r.value.id for r in ast.walk(sem.node) if isinstance(r, ast.Return)
           and isinstance(r.value, ast.Name)]
    for d in dets:
        inst = ("detector", d)
        ok = False
        for n in ast.walk(sem.node):
            if isinstance(n, ast.Assign) and isinstance(n.value, ast.Call) and callee_name(
                    n.value) == d and isinstance(n.targets[0], ast.Name) and n.targets[0].id in ret:
                ok = True
            if isinstance(n, ast.Call) and callee_name(n) == "extend" and isinstance(
                    n.func.value, ast.Name) and n.func.value.id in ret and n.args and isinstance(
                    n.args[0], ast.Call) and callee_name(n.args[0]) == d:
                ok = True
        if ok:
            res.holds(inst)
        else:
            res.violated(inst, _f("S2", sem, sem.node, "detector %s" % d,
                                  "inspect_semantics no longer reports the result of %s()" % d))
    # reserved names
    reserved = set(prog.fold_name(MODELS, "RESERVED_TASK_NAMES"))
    cmds = set(prog.fold_name("events", "ENGINE_EVENT_MAP").keys())
    literals = set()
    for short in ("conducting", "composers.native"):
        m = prog.module(short)
        for n in ast.walk(m.tree):
            if isinstance(n, ast.Compare) and len(n.ops) == 1 and isinstance(n.ops[0], (ast.Eq, ast.NotEq)):
                sides = [n.left, n.comparators[0]]
                names = [s for s in sides if isinstance(s, ast.Name) and "task" in s.id]
                consts = [s.value for s in sides if isinstance(s, ast.Constant)
                          and isinstance(s.value, str)]
                if names and consts:
                    literals |= set(consts)
    for c in sorted(cmds | literals):
        inst = ("reserved", c)
        if c in reserved:
            res.holds(inst)
        else:
            res.violated(inst, Finding(
                "S2", "orquesta/specs/native/v1/models.py", MODELS + ".RESERVED_TASK_NAMES",
                "command name %s" % c,
                "the engine treats the task name %r as a command but it is not a reserved task "
                "name: a user task of that name is accepted by inspection" % c))
    drn = tms.methods.get("detect_reserved_names")
    if drn is not None and "RESERVED_TASK_NAMES" in unparse(drn.node):
        res.holds(("reserved", "detector uses RESERVED_TASK_NAMES"))
    else:
        res.violated(("reserved", "detector"), _f(
            "S2", drn or sem, (drn or sem).node, "detect_reserved_names",
            "detect_reserved_names does not test against RESERVED_TASK_NAMES"))
    return res


def _admits_string(schema, prog, seen=None):
    """The (partially folded) JSON schema of a property admits a string value."""
    if isinstance(schema, ClassRef):
        return False
    if not isinstance(schema, dict):
        return False
    t = schema.get("type")
    if t == "string" or (isinstance(t, list) and "string" in t):
        return True
    for k in ("oneOf", "anyOf", "allOf"):
        for sub in schema.get(k, []) if isinstance(schema.get(k), list) else []:
            if _admits_string(sub, prog):
                return True
    if t == "array" and _admits_string(schema.get("items", {}), prog):
        return True
    if t == "object" or "patternProperties" in schema:
        pp = schema.get("patternProperties")
        if isinstance(pp, dict):
            for sub in pp.values():
                if _admits_string(sub, prog):
                    return True
    return False


def rule_S3(ctx):
    res = RuleResult("S3", "every property of a spec class that can carry an expression (admits "
                           "a string, or is a nested spec that tracks expressions) is listed in "
                           "the class's _context_evaluation_sequence")
    prog = ctx.prog
    mod = prog.module(MODELS)
    base = prog.cls("specs.base.Spec")
    classes = [c for c in mod.classes.values() if base in prog.mro(c)]
    if len(classes) < 6:
        raise AnalysisError("fewer than six spec classes in %s" % MODELS)

    def seq_of(c):
        owner, node = prog.lookup_class_attr(c, "_context_evaluation_sequence")
        if node is None:
            return []
        try:
            return list(prog.fold(node, owner.module))
        except NotFoldable:
            raise AnalysisError("cannot fold %s._context_evaluation_sequence" % c.qualname)

    for c in classes:
        if "_schema" not in c.attrs:
            continue
        schema = prog.fold(c.attrs["_schema"], c.module, partial=True)
        if not isinstance(schema, dict):
            continue
        props = schema.get("properties")
        if not isinstance(props, dict):
            continue  # mapping / sequence specs inspect their members themselves
        seq = seq_of(c)
        for name, ps in props.items():
            bearing = False
            why = ""
            if isinstance(ps, ClassRef):
                sub = prog.cls(ps.qualname)
                if seq_of(sub) or _has_custom_inspect_context(prog, sub) or _items_bearing(
                        prog, sub, seq_of):
                    bearing, why = True, "nested spec %s tracks expressions" % sub.name
            elif isinstance(ps, Opaque):
                continue
            elif _admits_string(ps, prog):
                bearing, why = True, "schema admits a string"
            if not bearing:
                continue
            inst = (c.name, name)
            if name in seq:
                res.holds(inst, why)
            else:
                node = c.attrs.get("_context_evaluation_sequence") or c.node
                res.violated(inst, Finding(
                    "S3", c.module.relpath, c.qualname, "property %s" % name,
                    "%s.%s can carry an expression (%s) but is not in "
                    "_context_evaluation_sequence: references to unassigned context variables "
                    "in it pass inspection silently" % (c.name, name, why), line=node.lineno))
    return res


def _items_bearing(prog, cls, seq_of):
    """Sequence spec whose item class tracks expressions."""
    if "_schema" not in cls.attrs:
        return False
    sch = prog.fold(cls.attrs["_schema"], cls.module, partial=True)
    it = sch.get("items") if isinstance(sch, dict) else None
    if isinstance(it, ClassRef):
        sub = prog.cls(it.qualname)
        return bool(seq_of(sub))
    return False


def _has_custom_inspect_context(prog, cls):
    m = prog.lookup_method(cls, "inspect_context")
    return m is not None and m.cls is not None and m.cls.qualname != "specs.base.Spec"


def rule_S4(ctx):
    res = RuleResult("S4", "context inspection checks the references of an entry before the "
                           "names the entry itself assigns become visible")
    prog = ctx.prog
    outer = prog.function("specs.base.Spec.inspect_context")
    scope = [outer] + [nf for nf in prog.nested_functions
                       if nf.qualname.startswith("specs.base.Spec.inspect_context.")]
    checks, updates = [], []
    for g in scope:
        own_nested = [nf.node for nf in scope if nf is not g]
        for n in ast.walk(g.node):
            if any(n is x for o in own_nested for x in ast.walk(o)) and g is outer:
                continue
            # the reference check: a loop that reports names 'not in' the rolling context
            if isinstance(n, ast.For) and "not in rolling_ctx" in unparse(n) and ".append" in unparse(n):
                checks.append((g, n))
            # the visibility update: the names an input/vars/publish/output entry assigns
            if isinstance(n, (ast.If, ast.Return, ast.Assign)) and "_context_inputs" in unparse(
                    n.test if isinstance(n, ast.If) else n):
                updates.append((g, n))
    if not checks:
        res.violated(("check",), _f("S4", outer, outer.node, "reference check",
                                    "inspect_context no longer reports references to unassigned "
                                    "variables"))
        return res
    if not updates:
        res.holds(("order",), "no visibility update in inspect_context")
        return res
    gc, check = checks[0]
    gu, update = updates[0]
    ok = None
    if gc is gu:
        ok = check._ord < update._ord
        where = update
    else:
        # check and update live in different (nested) functions: the order of their calls in
        # the common caller decides
        def calls_of(g):
            return [c for c in calls_in(outer.node) if callee_name(c) == g.name]
        cc = calls_of(gc) if gc is not outer else [check]
        cu = calls_of(gu) if gu is not outer else [update]
        where = cu[0] if cu else update
        if cc and cu:
            ok = all(any(c._ord < u._ord and _same_block(c, u) for c in cc) for u in cu)
        else:
            raise AnalysisError("inspect_context: cannot relate the reference check and the "
                                "visibility update")
    if ok:
        res.holds(("order",), "references are checked before the entry's own names are added")
    else:
        res.violated(("order",), _f(
            "S4", outer, where, "order of reference check and visibility update",
            "the names assigned by an input/vars/publish/output entry are added to the known "
            "context before that entry's own references are checked: an entry that references "
            "the variable it assigns (count: <% ctx().count + 1 %>) passes inspection"))
    return res


def _same_block(a, b):
    """The statements holding a and b sit in the same statement list."""
    def stmt_of(n):
        while n is not None and not isinstance(n, ast.stmt):
            n = getattr(n, "_parent", None)
        return n
    sa_, sb_ = stmt_of(a), stmt_of(b)
    pa, pb = getattr(sa_, "_parent", None), getattr(sb_, "_parent", None)
    return pa is pb


def rule_S5(ctx):
    res = RuleResult("S5", "every reader of a transition's 'do' normalises it the same way "
                           "(sibling agreement between inspection and the engine)")
    prog = ctx.prog
    forms = {}
    tms = prog.cls(MODELS + ".TaskMappingSpec")
    # the readers: methods of TaskMappingSpec, and methods of the other spec classes that
    # TaskMappingSpec calls to read 'do' on its behalf (a shared normaliser)
    called = {callee_name(c) for m in tms.methods.values() for c in calls_in(m.node)}
    n_calls = {}
    for m in tms.methods.values():
        for c in calls_in(m.node):
            n_calls[callee_name(c)] = n_calls.get(callee_name(c), 0) + 1
    readers = list(tms.methods.values()) + [
        m for m in prog.all_functions() if m.module.short == MODELS and m.cls is not None
        and m.cls is not tms and m.name in called]
    for m in readers:
        for n in ast.walk(m.node):
            if isinstance(n, ast.Assign) and len(n.targets) == 1 and isinstance(
                    n.targets[0], ast.Name) and isinstance(n.value, ast.BoolOp):
                v = n.value.values[0]
                if isinstance(v, ast.Call) and isinstance(v.func, ast.Name) and v.func.id == "getattr" \
                        and len(v.args) >= 2 and isinstance(v.args[1], ast.Constant) and v.args[1].value == "do":
                    var = n.targets[0].id
                    # statements in the same block that rewrite or transform the variable
                    blk = getattr(n, "_parent", None)
                    body = None
                    for fld in ("body", "orelse"):
                        lst = getattr(blk, fld, None)
                        if isinstance(lst, list) and n in lst:
                            body = lst[lst.index(n) + 1:]
                    # what is done to the value, whatever the locals are called and whether
                    # it is written in place or in an (inlined) helper: the aliases of the
                    # variable (copies and result temporaries), and every non-copy assignment
                    # to an alias together with the kind of test it sits under
                    aliases = {var}
                    stmts_ = [x for s_ in (body or []) for x in ast.walk(s_)
                              if isinstance(x, ast.Assign)]
                    for _ in range(4):
                        for x in stmts_:
                            tn = [t.id for t in x.targets if isinstance(t, ast.Name)]
                            if isinstance(x.value, ast.Name) and (
                                    x.value.id in aliases or set(tn) & aliases):
                                aliases |= set(tn) | {x.value.id}
                            elif set(tn) & aliases:
                                aliases |= set(tn)
                            elif any(isinstance(y, ast.Name) and y.id in aliases
                                     for y in ast.walk(x.value)) and any(
                                         t.startswith("__ret") for t in tn):
                                aliases |= set(tn)

                    class _Canon(ast.NodeTransformer):
                        def visit_Name(self, node):
                            return ast.copy_location(ast.Name(
                                id="_v" if node.id in aliases else node.id, ctx=node.ctx), node)
                    import copy as _copy
                    norm = []
                    for x in stmts_:
                        tn = [t.id for t in x.targets if isinstance(t, ast.Name)]
                        if not (set(tn) & aliases):
                            continue
                        if isinstance(x.value, ast.Name) or (
                                isinstance(x.value, ast.Constant) and x.value.value is None):
                            continue
                        under = "always"
                        up_ = x
                        while up_ is not None and up_ is not blk:
                            par_ = getattr(up_, "_parent", None)
                            if isinstance(par_, ast.If) and "isinstance" in unparse(par_.test) \
                                    and any(a_ in unparse(par_.test) for a_ in aliases):
                                arm = "then" if up_ in par_.body else "else"
                                under = "%s %s" % (arm, norm_src(_Canon().visit(
                                    ast.parse(unparse(par_.test), mode="eval").body)))
                            up_ = par_
                        val = _Canon().visit(ast.parse(unparse(x.value), mode="eval").body)
                        norm.append(untag("%s: %s" % (under, norm_src(val))))
                    norm = sorted(set(norm))
                    forms[m.qualname] = tuple(" ".join(x.split()) for x in norm)
    uses = sum(1 if prog.function(q).cls is tms else n_calls.get(prog.function(q).name, 0)
               for q in forms)
    if uses < 3:
        raise AnalysisError("fewer than three readers of 'do' in TaskMappingSpec (%d)" % uses)
    res.facts["readers"] = sorted(forms)
    shared = {prog.function(q).name: q for q in forms if prog.function(q).cls is not tms}
    for m in tms.methods.values():
        for c in calls_in(m.node):
            if callee_name(c) in shared:
                res.holds((m.qualname, "via " + shared[callee_name(c)]),
                          "reads 'do' through the shared normaliser")
    ref = None
    counts = {}
    for q, fm in forms.items():
        counts[fm] = counts.get(fm, 0) + 1
    ref = max(counts.items(), key=lambda x: x[1])[0]
    for q, fm in sorted(forms.items()):
        inst = (q,)
        if fm == ref:
            res.holds(inst)
        else:
            m = prog.function(q)
            res.violated(inst, _f(
                "S5", m, m.node, "normalisation of 'do'",
                "this reader normalises the transition's 'do' differently from its siblings "
                "(%s vs %s): inspection and the engine disagree about which task a transition "
                "names" % (list(fm), list(ref))))
    return res


# ====================================================================== S6
BASE_DISPATCH = ("validate", "evaluate", "extract_vars", "has_expressions")


def _part_of(e, P, mod):
    """Expression e yields the statement held by a name of P, or parts of it: the name, its
    items() / keys() / values(), a helper of the module applied to it, and list / enumerate /
    sorted wrappers of those."""
    if isinstance(e, ast.Name):
        return e.id in P
    if isinstance(e, ast.Call):
        fn = e.func
        if isinstance(fn, ast.Attribute) and fn.attr in ("items", "keys", "values") and not e.args:
            return _part_of(fn.value, P, mod)
        if isinstance(fn, ast.Name) and fn.id in ("list", "tuple", "enumerate", "sorted",
                                                  "reversed", "iter") and e.args:
            return _part_of(e.args[0], P, mod)
        if isinstance(fn, ast.Name) and fn.id in mod.functions and fn.id.startswith("_"):
            return any(_part_of(a, P, mod) for a in e.args)
    return False


def rule_S6(ctx):
    """expressions.base dispatches on the evaluators' own notion of 'has an expression': its
    module-level validate / evaluate / extract_vars / has_expressions look at a string only
    through isinstance, emptiness, or by handing it to a method of a registered evaluator (or
    to themselves).  A test that inspects the text itself (substring, prefix, regex) in the
    dispatcher decides what an expression is without asking the grammars - strings the
    evaluators would have validated (and reported) are then skipped."""
    res = RuleResult("S6", "the language-neutral dispatch in expressions.base never filters a "
                           "string by its text: only isinstance / emptiness tests and evaluator "
                           "methods decide which strings are validated, evaluated or scanned")
    prog = ctx.prog
    mod = prog.module("expressions.base")
    found = 0
    # the dispatchers, and the module's own helpers they still call after inlining (a
    # generator that walks the nested statement, say) with the statement as first argument
    todo = [(n_, True) for n_ in BASE_DISPATCH]
    seen_ = set()
    while todo:
        name, public = todo.pop(0)
        if name in seen_:
            continue
        seen_.add(name)
        f = mod.functions.get(name)
        if f is None:
            continue
        found += public
        for c_ in calls_in(f.node):
            if isinstance(c_.func, ast.Name) and c_.func.id in mod.functions and \
                    c_.func.id.startswith("_") and c_.func.id not in seen_:
                todo.append((c_.func.id, False))
        if not f.params:
            continue
        p = f.params[0]
        # names that hold the statement or a part of it: the parameter, targets of loops /
        # comprehensions over it, plain copies
        P = {p}
        for _ in range(3):
            for n in ast.walk(f.node):
                src_, tgt_ = None, None
                if isinstance(n, (ast.For, ast.comprehension)):
                    src_, tgt_ = n.iter, n.target
                elif isinstance(n, ast.Assign) and isinstance(n.value, ast.Name):
                    src_, tgt_ = n.value, n.targets[0]
                if src_ is not None and _part_of(src_, P, mod):
                    P |= {x.id for x in ast.walk(tgt_) if isinstance(x, ast.Name)}
        modules = set(k for k, v in f.module.imports.items())
        for n in ast.walk(f.node):
            tests = []
            if isinstance(n, (ast.If, ast.IfExp, ast.While)):
                tests.append(n.test)
            elif isinstance(n, ast.comprehension):
                tests.extend(n.ifs)
            P0 = P
            if isinstance(n, ast.comprehension) and not _part_of(n.iter, P, mod):
                # the comprehension's own variable shadows a name used for a part elsewhere
                P = P - {x.id for x in ast.walk(n.target) if isinstance(x, ast.Name)}
            for t in tests:
                inst = (f.qualname, norm_src(t))
                why = None
                for x in ast.walk(t):
                    if isinstance(x, ast.Compare):
                        ops = [x.left] + list(x.comparators)
                        if any(isinstance(o, ast.Name) and o.id in P for o in ops):
                            why = "compares the text itself (%s)" % unparse(x)
                    elif isinstance(x, ast.Call):
                        fn = x.func
                        uses = any(isinstance(a, ast.Name) and a.id in P for a in
                                   list(x.args) + [k.value for k in x.keywords])
                        if isinstance(fn, ast.Attribute) and isinstance(fn.value, ast.Name):
                            if fn.value.id in P:
                                why = "calls %s.%s()" % (fn.value.id, fn.attr)
                            elif uses and fn.value.id in modules:
                                why = "hands the text to %s" % unparse(fn)
                        elif isinstance(fn, ast.Name) and uses and fn.id not in (
                                "isinstance", "len", "bool", "type") + BASE_DISPATCH:
                            why = "hands the text to %s()" % fn.id
                    elif isinstance(x, ast.Subscript) and isinstance(x.value, ast.Name) and \
                            x.value.id in P:
                        why = "indexes the text (%s)" % unparse(x)
                if why is None:
                    res.holds(inst)
                else:
                    res.violated(inst, Finding(
                        "S6", f.file, f.qualname, "text test " + norm_src(t),
                        "%s() %s before / instead of asking the registered evaluators: a string "
                        "an evaluator recognises as an expression can be skipped, so its "
                        "grammar errors are not reported (or it is not evaluated)" % (name, why),
                        line=t.lineno))
            P = P0
    if found < 3:
        raise AnalysisError("expressions.base dispatch functions vanished")
    return res


# ====================================================================== S7
# recognisers whose matches are matches of another recogniser of the same class
SUBSUMED_RECOGNISERS = {
    "_regex_raw_block_parser": "a raw block {% raw %}..{% endraw %} is matched by the block "
                               "recogniser {%..%} as well",
}


def _recognisers_on_param(f, param):
    """cls._regex_* attributes whose findall/search/match/finditer is applied to `param`."""
    out = {}
    for n in ast.walk(f.node):
        if isinstance(n, ast.Call) and isinstance(n.func, ast.Attribute) and n.func.attr in (
                "findall", "search", "match", "finditer", "fullmatch") and n.args and isinstance(
                n.args[0], ast.Name) and n.args[0].id == param and isinstance(
                n.func.value, ast.Attribute) and n.func.value.attr.startswith("_regex"):
            out[n.func.value.attr] = n
    return out


def rule_S7(ctx):
    """Sibling agreement inside each evaluator: every recogniser that evaluate() / validate()
    apply to the text they are given is also consulted by has_expressions().  The dispatcher in
    expressions.base reaches an evaluator only through has_expressions, so a fragment kind that
    has_expressions does not recognise is never validated (its grammar errors go unreported)
    and never evaluated."""
    res = RuleResult("S7", "has_expressions() of every evaluator consults each recogniser that "
                           "its validate() / evaluate() apply to the text")
    prog = ctx.prog
    base = prog.cls("expressions.base.Evaluator")
    subs = [c for c in prog.subclasses(base) if c is not base]
    if len(subs) < 2:
        raise AnalysisError("fewer than two Evaluator subclasses found")
    for c in subs:
        he = prog.lookup_method(c, "has_expressions")
        if he is None or he.cls is not c:
            raise AnalysisError("%s has no has_expressions of its own" % c.qualname)
        hp = [p for p in he.params if p not in ("cls", "self")]
        H = set(_recognisers_on_param(he, hp[0])) if hp else set()
        # follow single-return delegation to another classmethod of the class
        for call in calls_in(he.node):
            m = prog.lookup_method(c, callee_name(call) or "")
            if m is not None and m.cls is c and m is not he:
                mp = [p for p in m.params if p not in ("cls", "self")]
                if mp:
                    H |= set(_recognisers_on_param(m, mp[0]))
        for name, m in sorted(c.methods.items()):
            if m is he or not any(k in name for k in ("evaluate", "validate")):
                continue
            mp = [p for p in m.params if p not in ("cls", "self")]
            if not mp:
                continue
            for attr, node in sorted(_recognisers_on_param(m, mp[0]).items()):
                inst = (c.qualname, name, attr)
                if attr in H:
                    res.holds(inst)
                elif attr in SUBSUMED_RECOGNISERS:
                    res.holds(inst, "subsumed: " + SUBSUMED_RECOGNISERS[attr])
                else:
                    res.violated(inst, Finding(
                        "S7", m.file, m.qualname, "recogniser %s" % attr,
                        "%s applies %s to its text, but has_expressions() of the class does not "
                        "consult it (it consults %s): strings that contain only that kind of "
                        "fragment are never dispatched to this evaluator, so their grammar "
                        "errors are not reported" % (name, attr, sorted(H)), line=node.lineno))
    return res


# ====================================================================== S8
def rule_S8(ctx):
    """A task name is looked up in the task mapping, never as an attribute of the spec object:
    `getattr(self, <task name>)` / `hasattr(self, <task name>)` with a computed name also finds
    methods and attributes of the object (update, copy, items, inspect ...), so an undefined
    task with such a name counts as defined and inspection then crashes on it instead of
    reporting it."""
    res = RuleResult("S8", "TaskMappingSpec resolves task names by mapping membership / item "
                           "access, not by attribute lookup with a computed name")
    prog = ctx.prog
    tms = prog.cls(MODELS + ".TaskMappingSpec")
    n = 0
    for name, m in sorted(tms.methods.items()):
        for c in calls_in(m.node):
            if isinstance(c.func, ast.Name) and c.func.id in ("getattr", "hasattr") and len(
                    c.args) >= 2 and isinstance(c.args[0], ast.Name) and c.args[0].id == "self":
                n += 1
                inst = (m.qualname, norm_src(c))
                if isinstance(c.args[1], ast.Constant):
                    res.holds(inst, "constant attribute name")
                else:
                    res.violated(inst, _f(
                        "S8", m, c, "attribute lookup with a computed name: " + norm_src(c),
                        "%s(self, %s) looks a task name up among the attributes of the spec "
                        "object: names of methods / attributes (update, copy, items ...) count as "
                        "defined tasks" % (c.func.id, unparse(c.args[1]))))
    # the positive form: membership tests on the mapping exist
    member = sum(1 for m in tms.methods.values() for x in ast.walk(m.node)
                 if isinstance(x, ast.Compare) and any(isinstance(o, (ast.In, ast.NotIn)) for o in x.ops)
                 and any(isinstance(cmp_, ast.Name) and cmp_.id == "self" for cmp_ in x.comparators))
    res.facts["membership_tests_on_the_mapping"] = member
    if member < 1 and not res.findings:
        raise AnalysisError("TaskMappingSpec no longer tests task names for membership")
    res.holds(("membership",), "%d membership test(s) on the mapping" % member)
    return res

"""Path enumeration for the event contextualisers (string building under state predicates).

The four ``add_context_to_*`` functions of machines.py turn a raw event name into a table key
by appending suffixes under predicates on the workflow state.  They are loop-free string
builders, so they can be enumerated exactly: the function body is interpreted over concrete
strings, every test on opaque state is turned into a *semantic atom* and decided by an oracle,
and replaying with every combination of decisions yields the complete decision tree
(generated name + the atoms that led to it).  A loop or an unmodelled construct is UNDECIDED.
"""

import ast

from sa.core import AnalysisError, NotFoldable, Opaque, unparse


class Sym(object):
    """A value the interpreter does not know concretely."""

    def __init__(self, kind, data=None, node=None):
        self.kind = kind  # 'expr' | 'filter'
        self.data = data
        self.node = node

    def __repr__(self):
        return "Sym(%s,%s)" % (self.kind, self.data if self.data is not None else unparse(self.node))


class _NoSelf(object):
    """Stands for `self` when a helper is evaluated on constants: any use of it is opaque."""


class _Return(Exception):
    def __init__(self, value):
        self.value = value


class PathEnumerator(object):
    def __init__(self, prog, finfo, bindings, atomizer):
        """bindings: {expression text: concrete value}; atomizer(sym_or_node, env) -> atom."""
        self.prog = prog
        self.f = finfo
        self.module = finfo.module
        self.bindings = bindings
        self.atomizer = atomizer

    # ------------------------------------------------------------------ driver
    def enumerate(self, limit=4096):
        """All (return value, [(atom, bool), ...]) leaves of the decision tree."""
        leaves = []
        work = [[]]
        while work:
            script = work.pop()
            decisions = []

            def oracle(atom):
                for a, v in decisions:
                    if a == atom:
                        return v
                i = len(decisions)
                if i < len(script):
                    v = script[i][1]
                else:
                    v = True
                    work.append([d for d in decisions] + [(atom, False)])
                decisions.append((atom, v))
                return v

            value = self._run(oracle)
            leaves.append((value, list(decisions)))
            if len(leaves) > limit:
                raise AnalysisError("decision tree of %s too large" % self.f.qualname)
        return leaves

    def _run(self, oracle):
        self.oracle = oracle
        self.env = {}
        try:
            self._block(self.f.node.body)
        except _Return as r:
            return r.value
        return None

    # ------------------------------------------------------------------ statements
    def _block(self, stmts):
        for s in stmts:
            self._stmt(s)

    def _stmt(self, s):
        if isinstance(s, ast.Assign):
            v = self._eval(s.value)
            for t in s.targets:
                if isinstance(t, ast.Name):
                    self.env[t.id] = v
                elif isinstance(t, (ast.Subscript, ast.Attribute)):
                    self.env[unparse(t)] = v
                elif isinstance(t, ast.Tuple):
                    for e in t.elts:
                        if isinstance(e, ast.Name):
                            self.env[e.id] = Sym("expr", node=s.value)
        elif isinstance(s, ast.AugAssign):
            if not isinstance(s.target, ast.Name) or not isinstance(s.op, ast.Add):
                raise AnalysisError("unmodelled augmented assignment in %s" % self.f.qualname)
            cur = self._eval(ast.Name(id=s.target.id, ctx=ast.Load()))
            self.env[s.target.id] = self._add(cur, self._eval(s.value), s)
        elif isinstance(s, ast.If):
            if self._truth(s.test):
                self._block(s.body)
            else:
                self._block(s.orelse)
        elif isinstance(s, ast.Return):
            raise _Return(self._eval(s.value) if s.value is not None else None)
        elif isinstance(s, (ast.Expr, ast.Pass, ast.Delete)):
            return
        elif isinstance(s, ast.Raise):
            raise _Return(Sym("raise", node=s))
        elif isinstance(s, (ast.For, ast.While)) and not any(
                isinstance(x, (ast.Raise, ast.Return, ast.Try, ast.With))
                for b in s.body + s.orelse for x in ast.walk(b)):
            # a loop that can neither leave the function nor raise explicitly: whatever it
            # assigns is unknown afterwards (a later decision on such a name is refused by the
            # atomizer), everything else is untouched
            for x in ast.walk(s):
                tgts = []
                if isinstance(x, ast.Assign):
                    tgts = x.targets
                elif isinstance(x, (ast.AugAssign, ast.AnnAssign, ast.For)):
                    tgts = [x.target]
                for t in tgts:
                    for e in ([t] if not isinstance(t, (ast.Tuple, ast.List)) else t.elts):
                        key = e.id if isinstance(e, ast.Name) else unparse(e)
                        self.env[key] = Sym("expr", node=s.iter if isinstance(s, ast.For) else s.test)
        else:
            raise AnalysisError(
                "unmodelled statement %s in contextualiser %s (loop or dynamic construct)"
                % (type(s).__name__, self.f.qualname)
            )

    # ------------------------------------------------------------------ expressions
    def _add(self, a, b, node):
        if isinstance(a, Sym) or isinstance(b, Sym):
            raise AnalysisError(
                "event name built from an unknown string in %s: %s" % (self.f.qualname, unparse(node))
            )
        return a + b

    def _eval(self, e):
        if isinstance(e, ast.Constant):
            return e.value
        txt = unparse(e)
        if isinstance(e, (ast.Subscript, ast.Attribute)) and txt in self.env:
            return self.env[txt]
        if txt in self.bindings and not (isinstance(e, ast.Name) and e.id in self.env):
            return self.bindings[txt]
        if isinstance(e, ast.Name):
            if e.id in self.env:
                return self.env[e.id]
            try:
                v = self.prog.fold(e, self.module)
                if not isinstance(v, Opaque):
                    return v
            except NotFoldable:
                pass
            return Sym("expr", node=e)
        if isinstance(e, ast.Attribute):
            try:
                v = self.prog.fold(e, self.module)
                if not isinstance(v, Opaque):
                    return v
            except NotFoldable:
                pass
            return Sym("expr", node=self._subst(e))
        if isinstance(e, ast.BinOp) and isinstance(e.op, ast.Add):
            return self._add(self._eval(e.left), self._eval(e.right), e)
        if isinstance(e, ast.BinOp) and isinstance(e.op, ast.Sub):
            l, r = self._eval(e.left), self._eval(e.right)
            if isinstance(l, (int, float)) and isinstance(r, (int, float)):
                return l - r
            return Sym("expr", node=self._subst(e))
        if isinstance(e, ast.UnaryOp) and isinstance(e.op, ast.USub):
            v = self._eval(e.operand)
            return -v if isinstance(v, (int, float)) else Sym("expr", node=self._subst(e))
        if isinstance(e, ast.BoolOp):
            # value semantics of and/or (x or 1), as far as the operands are concrete
            vals = []
            for sub in e.values:
                v = self._eval(sub)
                if isinstance(v, Sym):
                    # value of an and/or over something unknown: an unknown value (its truth
                    # is decided through the atomizer if it is ever tested)
                    return Sym("expr", node=self._subst(e))
                vals.append(v)
                if bool(v) != isinstance(e.op, ast.And):
                    return v
            return vals[-1]
        if isinstance(e, ast.IfExp):
            return self._eval(e.body) if self._truth(e.test) else self._eval(e.orelse)
        if isinstance(e, (ast.List, ast.Tuple, ast.Set)):
            vals = [self._eval(x) for x in e.elts]
            if any(isinstance(v, Sym) for v in vals):
                return Sym("expr", node=self._subst(e))
            return vals
        if isinstance(e, ast.Call):
            return self._call(e)
        if isinstance(e, ast.ListComp) and len(e.generators) == 1 and isinstance(
                e.generators[0].target, ast.Name) and isinstance(e.elt, ast.Name) and \
                e.elt.id == e.generators[0].target.id and e.generators[0].ifs:
            g = e.generators[0]
            cond = g.ifs[0] if len(g.ifs) == 1 else ast.BoolOp(op=ast.And(), values=list(g.ifs))
            return Sym("filter", data=(g.target.id, cond, self._subst(g.iter)), node=e)
        if isinstance(e, (ast.BoolOp, ast.Compare, ast.UnaryOp)):
            return self._truth(e)
        return Sym("expr", node=self._subst(e))

    def _call(self, e):
        f = e.func
        if isinstance(f, ast.Name) and f.id == "getattr" and len(e.args) >= 2:
            if isinstance(e.args[1], ast.Constant):
                txt = "%s.%s" % (unparse(e.args[0]), e.args[1].value)
                if txt in self.bindings:
                    return self.bindings[txt]
        if isinstance(f, ast.Name) and f.id in ("max", "min") and e.args and not e.keywords:
            vals = [self._eval(a) for a in e.args]
            if all(isinstance(v, (int, float)) and not isinstance(v, bool) for v in vals) and \
                    len(vals) > 1:
                return (max if f.id == "max" else min)(vals)
        if isinstance(f, ast.Attribute) and f.attr == "startswith" and len(e.args) == 1:
            recv, arg = self._eval(f.value), self._eval(e.args[0])
            if isinstance(recv, str) and isinstance(arg, str):
                return recv.startswith(arg)
            if isinstance(recv, str) and isinstance(arg, (list, tuple)) and all(
                    isinstance(x, str) for x in arg):
                return recv.startswith(tuple(arg))
        if isinstance(f, ast.Attribute) and f.attr == "endswith" and len(e.args) == 1:
            recv, arg = self._eval(f.value), self._eval(e.args[0])
            if isinstance(recv, str) and isinstance(arg, str):
                return recv.endswith(arg)
        # list(filter(lambda x: <pred>, SRC))  /  [x for x in SRC if <pred>]
        filt = self._filter_form(e)
        if filt is not None:
            return filt
        # a read-only method of a concrete constant:  TABLE.get(status)
        if isinstance(f, ast.Attribute) and f.attr in ("get", "keys", "values", "items", "index",
                                                        "count") and not e.keywords:
            recv = self._eval(f.value)
            args = [self._eval(a) for a in e.args]
            if isinstance(recv, (dict, list, tuple, str)) and not any(
                    isinstance(a, Sym) for a in args):
                try:
                    return getattr(recv, f.attr)(*args)
                except Exception:  # noqa: B902 - not a constant then
                    pass
        # a helper of the repository applied to concrete values (constant evaluation)
        target = self._helper(e)
        if target is not None:
            args = [self._eval(a) for a in e.args]
            kwargs = {k.arg: self._eval(k.value) for k in e.keywords if k.arg}
            if not any(isinstance(a, Sym) for a in args + list(kwargs.values())):
                from sa.pureeval import PureEval
                params = [x.arg for x in target.node.args.args]
                if params and params[0] in ("self", "cls") and not target.is_staticmethod:
                    args = [_NoSelf()] + args
                try:
                    return PureEval(self.prog, target.module).call(target.node, args, kwargs)
                except NotFoldable:
                    pass
        return Sym("expr", node=self._subst(e))

    def _helper(self, e):
        """FuncInfo of a private method of the analysed class / function of its module."""
        f = e.func
        if isinstance(f, ast.Attribute) and isinstance(f.value, ast.Name) and f.value.id in (
                "self", "cls") and getattr(self.f, "cls", None) is not None:
            return self.prog.lookup_method(self.f.cls, f.attr)
        if isinstance(f, ast.Name) and f.id in self.module.functions:
            return self.module.functions[f.id]
        return None

    def _filter_form(self, e):
        inner = e
        if isinstance(e.func, ast.Name) and e.func.id in ("list", "bool", "any") and len(e.args) == 1:
            inner = e.args[0]
        if (isinstance(inner, ast.Call) and isinstance(inner.func, ast.Name)
                and inner.func.id == "filter" and len(inner.args) == 2
                and isinstance(inner.args[0], ast.Lambda)):
            lam = inner.args[0]
            if len(lam.args.args) == 1:
                var = lam.args.args[0].arg
                return Sym("filter", data=(var, lam.body, self._subst(inner.args[1])), node=e)
        return None

    def _subst(self, node):
        """Replace local names by the expression that defined them (symbolic values only)."""
        mapping = {}
        for name, v in self.env.items():
            if isinstance(v, Sym) and v.node is not None and v.kind == "expr":
                mapping[name] = v.node
        if not mapping:
            return node

        class T(ast.NodeTransformer):
            def visit_Name(self, n):
                if isinstance(n.ctx, ast.Load) and n.id in mapping:
                    return ast.parse(unparse(mapping[n.id]), mode="eval").body
                return n

        return T().visit(ast.parse(unparse(node), mode="eval").body)

    def _truth(self, e):
        if isinstance(e, ast.UnaryOp) and isinstance(e.op, ast.Not):
            return not self._truth(e.operand)
        if isinstance(e, ast.BoolOp):
            if isinstance(e.op, ast.And):
                for v in e.values:
                    if not self._truth(v):
                        return False
                return True
            for v in e.values:
                if self._truth(v):
                    return True
            return False
        if isinstance(e, ast.Compare) and len(e.ops) > 1:
            # a == b == c  is  a == b and b == c
            left = e.left
            for op, right in zip(e.ops, e.comparators):
                if not self._truth(ast.Compare(left=left, ops=[op], comparators=[right])):
                    return False
                left = right
            return True
        if isinstance(e, ast.Compare) and len(e.ops) == 1:
            left, right = self._eval(e.left), self._eval(e.comparators[0])
            if not isinstance(left, Sym) and not isinstance(right, Sym):
                op = e.ops[0]
                try:
                    if isinstance(op, ast.In):
                        return left in right
                    if isinstance(op, ast.NotIn):
                        return left not in right
                    if isinstance(op, ast.Eq):
                        return left == right
                    if isinstance(op, ast.NotEq):
                        return left != right
                    if isinstance(op, ast.Is):
                        return left is right
                    if isinstance(op, ast.IsNot):
                        return left is not right
                    if isinstance(op, ast.Lt):
                        return left < right
                    if isinstance(op, ast.LtE):
                        return left <= right
                    if isinstance(op, ast.Gt):
                        return left > right
                    if isinstance(op, ast.GtE):
                        return left >= right
                except TypeError:
                    pass
            # a boolean-valued state predicate is never None
            if isinstance(e.ops[0], (ast.Is, ast.IsNot)) and (
                    (right is None and isinstance(left, Sym)) or (left is None and isinstance(right, Sym))):
                sym = left if isinstance(left, Sym) else right
                is_bool = getattr(self.atomizer, "is_boolean", None)
                if is_bool is not None and sym.node is not None and is_bool(sym.node, self):
                    return isinstance(e.ops[0], ast.IsNot)
            atom = self.atomizer(self._subst(e), self)
            return self._decide(atom)
        v = self._eval(e)
        if isinstance(v, Sym):
            if v.kind == "expr" and v.node is not e and isinstance(v.node, ast.BoolOp):
                # the truth of a stored and/or is the and/or of the truths of its operands
                return self._truth(v.node)
            atom = self.atomizer(v if v.kind == "filter" else (v.node if v.node is not None else e), self)
            return self._decide(atom)
        return bool(v)

    def _decide(self, atom):
        """Truth of what the atomizer returned: an atom, ('not', atom) or ('any', [atoms])."""
        if atom and atom[0] == "not":
            return not self._decide(atom[1])
        if atom and atom[0] == "any":
            for a in atom[1]:
                if self._decide(a):
                    return True
            return False
        if atom and atom[0] == "all":
            for a in atom[1]:
                if not self._decide(a):
                    return False
            return True
        return self.oracle(atom)

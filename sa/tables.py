"""Table rules T0-T5: typestate analysis of the two status machines of machines.py.

Facts are folded from the source on every run: the status lists, the event lists, both
transition tables and the complete decision trees of the four event contextualisers
(sa.symx).  The *meaning* of an event name is the set of abstract engine states under which
the contextualiser produces it; the oracles below are statements about
``eff(row, name) = table[row].get(name, row)`` for every row and every generable name, phrased
over those states (is an action in flight, is work left, did a failure go unhandled, ...).
Nothing is matched by name suffix or by source text.
"""

import ast
import itertools

from sa.core import AnalysisError, ClassRef, NotFoldable, Opaque, subst_locals, unparse
from sa.report import Finding, RuleResult
from sa.symx import PathEnumerator, Sym

MACH = "orquesta/machines.py"

# ---- vocabulary of properties C02/C03 (specification, not code): an action of a task is at
# the provider exactly in these task statuses.
IN_FLIGHT = frozenset(
    ["requested", "scheduled", "delayed", "running", "resuming", "pausing", "canceling"])
PAUSEDISH = frozenset(["paused", "pending"])
PAUSE_EVIDENCE = frozenset(["pausing", "paused", "pending"])
CANCEL_EVIDENCE = frozenset(["canceling", "canceled"])
RESTING = frozenset(["paused", "canceled", "succeeded"])
WF_ACTIVE_ROWS = ("running", "pausing", "resuming", "canceling")
TERMINAL = frozenset(["succeeded", "failed", "canceled"])


def _cells(dict_node, prog, module):
    """{row: {event: (key node, value node)}} and the list of duplicate keys."""
    out, dups = {}, []
    if not isinstance(dict_node, ast.Dict):
        raise AnalysisError("transition table is not a dict display")
    for rk, rv in zip(dict_node.keys, dict_node.values):
        if rk is None:
            raise AnalysisError("transition table is built with ** at the top level")
        row = prog.fold(rk, module)
        if row in out:
            dups.append((row, None, rk.lineno))
        out[row] = {}
        if not isinstance(rv, ast.Dict):
            # a computed row (a constant-building helper): every cell is attributed to the row
            try:
                val = prog.fold(rv, module)
            except NotFoldable as e:
                raise AnalysisError("row %r of a transition table is neither a dict display nor "
                                    "a foldable constant expression (%s)" % (row, e))
            if not isinstance(val, dict) or not all(
                    isinstance(k, str) and isinstance(v, str) for k, v in val.items()):
                raise AnalysisError("row %r of a transition table does not fold to a mapping of "
                                    "event names to statuses" % row)
            for ev, tgt in val.items():
                out[row][ev] = (rk, rv, tgt)
            out[row]["__line__"] = rk.lineno
            continue
        for ck, cv in zip(rv.keys, rv.values):
            if ck is None:
                # **FRAGMENT / **helper(...): a shared, constant group of cells of this row
                try:
                    frag = prog.fold(cv, module)
                except NotFoldable as e:
                    raise AnalysisError("row %r includes **%s, which is not a foldable "
                                        "constant (%s)" % (row, unparse(cv), e))
                if not isinstance(frag, dict) or not all(
                        isinstance(k, str) and isinstance(v, str) for k, v in frag.items()):
                    raise AnalysisError("row %r includes **%s, which does not fold to a mapping "
                                        "of event names to statuses" % (row, unparse(cv)))
                for ev, tgt in frag.items():
                    # a later literal cell / fragment overrides an earlier one, as in Python
                    out[row][ev] = (cv, cv, tgt)
                continue
            ev = prog.fold(ck, module)
            if ev in out[row] and out[row][ev][0] is not out[row][ev][1]:
                dups.append((row, ev, ck.lineno))
            out[row][ev] = (ck, cv, prog.fold(cv, module))
        out[row]["__line__"] = rk.lineno
    return out, dups


class TableFacts(object):
    def __init__(self, prog):
        self.prog = prog
        self.mach = prog.module("machines")
        st = lambda n: prog.fold_name("statuses", n)  # noqa: E731
        ev = lambda n: prog.fold_name("events", n)  # noqa: E731
        self.ALL = list(st("ALL_STATUSES"))
        self.UNSET = st("UNSET")
        self.ACTIVE = frozenset(st("ACTIVE_STATUSES"))
        self.COMPLETED = frozenset(st("COMPLETED_STATUSES"))
        self.ABENDED = frozenset(st("ABENDED_STATUSES"))
        self.RUNNING_STATUSES = frozenset(st("RUNNING_STATUSES"))
        self.STARTING = frozenset(st("STARTING_STATUSES"))
        self.PAUSE = frozenset(st("PAUSE_STATUSES"))
        self.CANCEL = frozenset(st("CANCEL_STATUSES"))
        self.TASK_EVENTS = list(ev("TASK_EXECUTION_EVENTS"))
        self.WF_EVENTS = list(ev("WORKFLOW_EXECUTION_EVENTS"))
        self.ACTION_EVENTS = list(ev("ACTION_EXECUTION_EVENTS"))
        self.ENGINE_EVENTS = list(ev("ENGINE_OPERATION_EVENTS"))
        self.ENGINE_EVENT_MAP = ev("ENGINE_EVENT_MAP")
        wnode = prog.binding_node("machines", "WORKFLOW_STATE_MACHINE_DATA")
        tnode = prog.binding_node("machines", "TASK_STATE_MACHINE_DATA")
        self.wf_cells, self.wf_dups = _cells(wnode, prog, self.mach)
        self.task_cells, self.task_dups = _cells(tnode, prog, self.mach)
        self.wf = {r: {e: c[2] for e, c in row.items() if e != "__line__"}
                   for r, row in self.wf_cells.items()}
        self.task = {r: {e: c[2] for e, c in row.items() if e != "__line__"}
                     for r, row in self.task_cells.items()}
        self.templates = self._event_templates()
        self.engine_ops = self._engine_ops()
        self._leaves = {}

    # ------------------------------------------------------------------ event constructors
    def _name_template(self, e, params, module):
        """'prefix_%s' for a string expression built from constants and one constructor
        parameter (the status): "x_%s" % p, "x_" + p, "x" + "_%s" % p, "x_{}".format(p),
        f"x_{p}".  None when the expression is anything else."""
        if isinstance(e, ast.Constant) and isinstance(e.value, str):
            return e.value.replace("%", "%%")
        if isinstance(e, ast.Name):
            if e.id in params:
                return "%s"
            try:
                v = self.prog.fold(e, module)
                return v.replace("%", "%%") if isinstance(v, str) else None
            except NotFoldable:
                return None
        if isinstance(e, ast.BinOp) and isinstance(e.op, ast.Add):
            l, r = self._name_template(e.left, params, module), self._name_template(
                e.right, params, module)
            return None if l is None or r is None else l + r
        if isinstance(e, ast.BinOp) and isinstance(e.op, ast.Mod) and isinstance(
                e.left, ast.Constant) and isinstance(e.left.value, str):
            args = e.right.elts if isinstance(e.right, ast.Tuple) else [e.right]
            parts = [self._name_template(a, params, module) for a in args]
            if any(p_ is None for p_ in parts) or e.left.value.count("%s") != len(parts):
                return None
            out, rest = "", e.left.value
            for p_ in parts:
                i = rest.index("%s")
                out += rest[:i].replace("%", "%%") + p_
                rest = rest[i + 2:]
            return out + rest.replace("%", "%%")
        if isinstance(e, ast.JoinedStr):
            out = ""
            for v in e.values:
                if isinstance(v, ast.Constant):
                    out += str(v.value).replace("%", "%%")
                elif isinstance(v, ast.FormattedValue) and v.format_spec is None:
                    t = self._name_template(v.value, params, module)
                    if t is None:
                        return None
                    out += t
                else:
                    return None
            return out
        if isinstance(e, ast.Call) and isinstance(e.func, ast.Attribute) and e.func.attr == "format" \
                and isinstance(e.func.value, ast.Constant) and isinstance(e.func.value.value, str) \
                and not e.keywords and e.func.value.value.count("{}") == len(e.args):
            out, rest = "", e.func.value.value
            for a in e.args:
                t = self._name_template(a, params, module)
                if t is None:
                    return None
                i = rest.index("{}")
                out += rest[:i].replace("%", "%%") + t
                rest = rest[i + 2:]
            return out + rest.replace("%", "%%")
        return None

    def _event_templates(self):
        """{'TaskExecutionEvent': 'task_%s', ...} read from the super().__init__ calls."""
        out = {}
        evm = self.prog.module("events")
        for cname, ci in evm.classes.items():
            init = ci.methods.get("__init__")
            if init is None:
                continue
            for node in ast.walk(init.node):
                if (isinstance(node, ast.Call) and isinstance(node.func, ast.Attribute)
                        and node.func.attr == "__init__" and node.args):
                    a0 = node.args[0]
                    params = [p_ for p_ in init.params if p_ not in ("self", "cls")]
                    tpl = self._name_template(a0, params, init.module)
                    if tpl is not None and tpl.count("%s") == 1:
                        out[cname] = tpl
        # classes that inherit __init__ (TaskItemActionExecutionEvent passes the status on)
        for cname, ci in evm.classes.items():
            if cname not in out:
                for b in self.prog.mro(ci)[1:]:
                    if b.name in out:
                        out[cname] = out[b.name]
                        break
        for need in ("WorkflowExecutionEvent", "TaskExecutionEvent", "ActionExecutionEvent"):
            if need not in out:
                raise AnalysisError("cannot read the event name template of events.%s" % need)
        return out

    def _engine_ops(self):
        """{'fail': ('task_fail_requested', 'failed'), ...} from the EngineOperationEvent classes."""
        out = {}
        evm = self.prog.module("events")
        for cmd, ref in self.ENGINE_EVENT_MAP.items():
            if not isinstance(ref, ClassRef):
                raise AnalysisError("ENGINE_EVENT_MAP[%r] is not a class" % cmd)
            ci = evm.classes.get(ref.qualname.split(".")[-1])
            init = ci.methods.get("__init__") if ci else None
            name = status = None
            if init is not None:
                for node in ast.walk(init.node):
                    if isinstance(node, ast.Assign) and len(node.targets) == 1:
                        t = node.targets[0]
                        if isinstance(t, ast.Attribute) and isinstance(t.value, ast.Name):
                            try:
                                v = self.prog.fold(subst_locals(init.node, node.value), evm)
                            except NotFoldable:
                                continue
                            if t.attr == "name":
                                name = v
                            elif t.attr == "status":
                                status = v
            if (name is None or status is None) and init is not None:
                # delegation: super().__init__(NAME, STATUS, ...) / ExecutionEvent.__init__(self, ..)
                for node in ast.walk(init.node):
                    if isinstance(node, ast.Call) and isinstance(node.func, ast.Attribute) and \
                            node.func.attr == "__init__":
                        args = list(node.args)
                        if args and isinstance(args[0], ast.Name) and args[0].id == "self":
                            args = args[1:]
                        kws = {k.arg: k.value for k in node.keywords}
                        try:
                            if len(args) >= 2:
                                name, status = self.prog.fold(args[0], evm), self.prog.fold(args[1], evm)
                            elif "name" in kws and "status" in kws:
                                name = self.prog.fold(kws["name"], evm)
                                status = self.prog.fold(kws["status"], evm)
                        except NotFoldable:
                            pass
            if name is None or status is None:
                raise AnalysisError("cannot read name/status of engine event class %s" % ref)
            out[cmd] = (name, status)
        return out

    # ------------------------------------------------------------------ task statuses
    def task_statuses(self):
        """Statuses a task record can carry: rows and targets of the task table."""
        out = []
        for r, row in self.task.items():
            for s in [r] + list(row.values()):
                if s != self.UNSET and s not in out:
                    out.append(s)
        return out

    # ------------------------------------------------------------------ contextualisers
    def contextualiser(self, cls, name):
        f = self.prog.function("machines.%s.%s" % (cls, name))
        return f

    def leaves(self, which):
        if which in self._leaves:
            return self._leaves[which]
        fn = {
            "wf.task": ("WorkflowStateMachine", "add_context_to_task_event", "TaskExecutionEvent"),
            "wf.request": ("WorkflowStateMachine", "add_context_to_workflow_event",
                           "WorkflowExecutionEvent"),
            "task.item": ("TaskStateMachine", "add_context_to_task_item_event",
                          "ActionExecutionEvent"),
            "task.request": ("TaskStateMachine", "add_context_to_workflow_event",
                             "WorkflowExecutionEvent"),
            "task.action": ("TaskStateMachine", "add_context_to_action_event",
                            "ActionExecutionEvent"),
        }[which]
        f = self.contextualiser(fn[0], fn[1])
        template = self.templates[fn[2]]
        ev_param = f.params[-1]
        ws_param = f.params[1] if len(f.params) > 1 else None
        if which == "wf.task":
            domain = self.task_statuses()
        else:
            domain = [s for s in self.ALL if s != self.UNSET]
        atomizer = Atomizer(self, f, ws_param, ev_param)
        out = {}
        if which == "task.item":
            try:
                out = self._symbolic_leaves(f, template, domain, ev_param, atomizer,
                                            strict_opaque=True)
            except AnalysisError as symbolic_failure:
                # a shape the symbolic enumerator does not model (loops with flags, a table of
                # groups ...): interpret the function over representative item lists instead
                from sa import replay
                sets = replay.status_sets_in(self.prog, f, self.ALL) | {
                    IN_FLIGHT, PAUSEDISH, frozenset(["canceled"]), frozenset(self.ABENDED),
                    frozenset(self.COMPLETED), frozenset(["succeeded"]), frozenset([self.UNSET])}
                classes = status_classes(self.ALL, sorted(sets, key=sorted))
                try:
                    out, unstable = replay.replay_item_leaves(self, f, template, domain, classes)
                except AnalysisError as e2:
                    raise AnalysisError("%s; %s" % (symbolic_failure, e2))
                self.item_replay = {"reason": str(symbolic_failure), "classes": len(classes),
                                    "order_dependent": unstable}
            self._leaves[which] = out
            return out
        if which == "task.request":
            try:
                out = self._symbolic_leaves(f, template, domain, ev_param, atomizer,
                                            strict_opaque=True)
            except AnalysisError as symbolic_failure:
                from sa import replay
                sets = replay.status_sets_in(self.prog, f, self.ALL) | {
                    IN_FLIGHT, frozenset(self.COMPLETED)}
                classes = status_classes(self.ALL, sorted(sets, key=sorted))
                try:
                    out, unstable = replay.replay_request_leaves(self, f, template, domain,
                                                                 classes)
                except AnalysisError as e2:
                    raise AnalysisError("%s; %s" % (symbolic_failure, e2))
                self.request_replay = {"reason": str(symbolic_failure), "classes": len(classes),
                                       "order_dependent": unstable}
            self._leaves[which] = out
            return out
        out = self._symbolic_leaves(f, template, domain, ev_param, atomizer)
        self._leaves[which] = out
        return out

    def _symbolic_leaves(self, f, template, domain, ev_param, atomizer, strict_opaque=False):
        out = {}
        for s in domain:
            bindings = {
                "%s.name" % ev_param: template % s,
                "%s.status" % ev_param: s,
            }
            pe = PathEnumerator(self.prog, f, bindings, atomizer)
            lv = []
            for value, decisions in pe.enumerate():
                if isinstance(value, Sym):
                    if value.kind == "raise":
                        continue
                    raise AnalysisError("%s returns a non-constant name for status %s: %r"
                                        % (f.qualname, s, value))
                if not isinstance(value, str):
                    raise AnalysisError("%s returns %r for status %s" % (f.qualname, value, s))
                # a test the enumerator cannot give a meaning to.  On the task side (items of a
                # with-items task) the function is then replayed over all abstract states (see
                # leaves()).  On the workflow side the unknown test stays in the decisions as a
                # free boolean: the name is taken to be generated whatever the test says in any
                # state - an over-approximation of the states, so a table cell that is only
                # right if the unknown test implies something is reported, not guessed right.
                for atom, _v in decisions:
                    if atom and atom[0] == "opaque" and strict_opaque:
                        raise AnalysisError(
                            "%s decides the event name on %s, which is not one of the state "
                            "predicates the analysis understands" % (f.qualname, atom[1]))
                lv.append((value, decisions))
            out[s] = lv
        return out


class Atomizer(object):
    """Maps an opaque test of a contextualiser to a semantic atom."""

    def __init__(self, facts, finfo, ws_param, ev_param):
        self.facts = facts
        self.prog = facts.prog
        self.f = finfo
        self.ws = ws_param
        self.ev = ev_param
        self.ws_cls = self.prog.cls("conducting.WorkflowState")

    def is_boolean(self, node, interp):
        """The expression is one of the recognised state predicates (always True / False)."""
        try:
            return self(node, interp)[0] != "opaque"
        except AnalysisError:
            return False

    def __call__(self, x, interp):
        if isinstance(x, Sym) and x.kind == "filter":
            var, body, src = x.data
            s = self._pred_set(var, body)
            if s is None:
                return ("opaque", unparse(x.node))
            return ("item_exists", s)
        node = x
        # strip bool()/len()>0 wrappers
        if (isinstance(node, ast.Compare) and len(node.ops) == 1 and isinstance(node.ops[0], ast.Gt)
                and isinstance(node.comparators[0], ast.Constant) and node.comparators[0].value == 0
                and isinstance(node.left, ast.Call) and isinstance(node.left.func, ast.Name)
                and node.left.func.id == "len" and len(node.left.args) == 1):
            node = node.left.args[0]
        if isinstance(node, ast.Call) and isinstance(node.func, ast.Name) and node.func.id in (
                "bool", "len") and len(node.args) == 1:
            node = node.args[0]
        # direct use of the accessors the properties are built from
        if isinstance(node, ast.Call) and isinstance(node.func, ast.Attribute) and isinstance(
                node.func.value, ast.Name) and node.func.value.id == self.ws:
            m = node.func.attr
            if m == "get_staged_tasks" and not node.args and not node.keywords:
                return ("staged_ready",)
            if m == "get_tasks_by_status" and len(node.args) == 1 and not node.keywords:
                try:
                    return ("task_exists", frozenset(self.prog.fold(node.args[0], self.f.module)))
                except NotFoldable:
                    pass
        if isinstance(node, ast.Attribute) and isinstance(node.value, ast.Name) \
                and node.value.id == self.ws:
            return self._ws_property(node.attr)
        if isinstance(node, ast.Call) and isinstance(node.func, ast.Attribute) and isinstance(
                node.func.value, ast.Name) and node.func.value.id == self.ws:
            m = node.func.attr
            if m in ("has_next_tasks", "has_barrier_next"):
                return self._ws_delegate(m)
            if m == "get_staged_task":
                return ("staged_exists",)
        if isinstance(node, ast.Compare) and len(node.ops) == 1:
            l, r = node.left, node.comparators[0]
            if (isinstance(l, ast.Attribute) and isinstance(l.value, ast.Name)
                    and l.value.id == self.ws and l.attr == "status"
                    and isinstance(node.ops[0], (ast.Eq, ast.NotEq, ast.In, ast.NotIn))):
                try:
                    rv = self.prog.fold(r, self.f.module)
                except NotFoldable:
                    rv = None
                op = node.ops[0]
                if isinstance(op, (ast.Eq, ast.NotEq)) and isinstance(rv, str):
                    atom = ("wf_status_eq", rv)
                    return atom if isinstance(op, ast.Eq) else ("not", atom)
                if isinstance(op, (ast.In, ast.NotIn)) and isinstance(rv, (list, tuple, set, frozenset)) \
                        and all(isinstance(x, str) for x in rv):
                    atom = ("any", [("wf_status_eq", x) for x in sorted(rv)])
                    return atom if isinstance(op, ast.In) else ("not", atom)
            if (isinstance(l, ast.Constant) and l.value == "items"
                    and isinstance(node.ops[0], ast.In)):
                return ("staged_has_items",)
        return ("opaque", unparse(node))

    def _pred_set(self, var, body):
        """Status set accepted by a lambda body over one status variable."""
        allst = frozenset(self.facts.ALL)
        if isinstance(body, ast.BoolOp):
            parts = [self._pred_set(var, v) for v in body.values]
            if any(p is None for p in parts):
                return None
            out = parts[0]
            for p in parts[1:]:
                out = (out | p) if isinstance(body.op, ast.Or) else (out & p)
            return out
        if isinstance(body, ast.UnaryOp) and isinstance(body.op, ast.Not):
            inner = self._pred_set(var, body.operand)
            return None if inner is None else allst - inner
        if isinstance(body, ast.Compare) and len(body.ops) == 1 and isinstance(
                body.left, ast.Name) and body.left.id == var:
            try:
                rhs = self.prog.fold(body.comparators[0], self.f.module)
            except NotFoldable:
                return None
            op = body.ops[0]
            if isinstance(op, ast.In):
                return frozenset(rhs)
            if isinstance(op, ast.NotIn):
                return allst - frozenset(rhs)
            if isinstance(op, ast.Eq):
                return frozenset([rhs])
            if isinstance(op, ast.NotEq):
                return allst - frozenset([rhs])
        return None

    def _ws_property(self, attr, depth=0):
        fi = self.prog.lookup_method(self.ws_cls, attr)
        if fi is None or not fi.is_property:
            return ("opaque", "workflow_state.%s" % attr)
        rets = [n for n in ast.walk(fi.node) if isinstance(n, ast.Return)]
        if len(rets) != 1 or rets[0].value is None:
            return ("opaque", "workflow_state.%s" % attr)
        v = subst_locals(fi.node, rets[0].value)
        # a predicate composed of other predicates of the state:  not (self.a or self.b)
        comp = self._ws_composed(v, attr, depth)
        if comp is not None:
            return comp
        # len(X) > 0   |  bool(X)  |  X
        inner = None
        if (isinstance(v, ast.Compare) and len(v.ops) == 1 and isinstance(v.ops[0], ast.Gt)
                and isinstance(v.comparators[0], ast.Constant) and v.comparators[0].value == 0
                and isinstance(v.left, ast.Call) and isinstance(v.left.func, ast.Name)
                and v.left.func.id == "len" and len(v.left.args) == 1):
            inner = v.left.args[0]
        elif isinstance(v, ast.Call) and isinstance(v.func, ast.Name) and v.func.id == "bool":
            inner = v.args[0]
        if (isinstance(inner, ast.Call) and isinstance(inner.func, ast.Attribute)
                and isinstance(inner.func.value, ast.Name) and inner.func.value.id == "self"):
            m = inner.func.attr
            if m == "get_tasks_by_status" and inner.args:
                kw = {k.arg: k.value for k in inner.keywords}
                if len(inner.args) > 1 or "last_occurrence" in kw:
                    return ("opaque", "workflow_state.%s" % attr)
                try:
                    s = self.prog.fold(inner.args[0], fi.module)
                except NotFoldable:
                    return ("opaque", "workflow_state.%s" % attr)
                return ("task_exists", frozenset(s))
            if m == "get_staged_tasks" and not inner.args and not inner.keywords:
                return ("staged_ready",)
        return ("opaque", "workflow_state.%s" % attr)

    def _ws_composed(self, v, attr, depth):
        if depth > 4:
            return None
        if isinstance(v, ast.UnaryOp) and isinstance(v.op, ast.Not):
            inner = self._ws_composed(v.operand, attr, depth + 1)
            return None if inner is None else ("not", inner)
        if isinstance(v, ast.BoolOp):
            parts = [self._ws_composed(x, attr, depth + 1) for x in v.values]
            if any(p is None for p in parts):
                return None
            return ("any" if isinstance(v.op, ast.Or) else "all", parts)
        if isinstance(v, ast.Attribute) and isinstance(v.value, ast.Name) and v.value.id == "self" \
                and v.attr != attr:
            sub = self._ws_property(v.attr, depth + 1)
            return None if sub[0] == "opaque" else sub
        if isinstance(v, ast.Call) and isinstance(v.func, ast.Name) and v.func.id == "bool" \
                and len(v.args) == 1:
            return self._ws_composed(v.args[0], attr, depth + 1)
        return None

    def _ws_delegate(self, meth):
        """WorkflowState.has_next_tasks / has_barrier_next must delegate to the conductor."""
        fi = self.prog.lookup_method(self.ws_cls, meth)
        ok = False
        if fi is not None:
            rets = [n for n in ast.walk(fi.node) if isinstance(n, ast.Return)]
            if len(rets) == 1 and isinstance(rets[0].value, ast.Call):
                c = rets[0].value
                if isinstance(c.func, ast.Attribute) and c.func.attr == meth and unparse(
                        c.func.value) == "self.conductor":
                    ok = True
        if not ok:
            return ("opaque", "workflow_state.%s()" % meth)
        return ("has_next",) if meth == "has_next_tasks" else ("has_barrier_next",)


# ====================================================================== model states
def status_classes(all_statuses, sets):
    """Partition of the statuses by membership in each of the given sets."""
    sig = {}
    for s in all_statuses:
        k = tuple(s in x for x in sets)
        sig.setdefault(k, []).append(s)
    return [frozenset(v) for v in sig.values()]


class Meaning(object):
    """meaning[name] -> list of abstract states under which the name is generated."""

    def __init__(self):
        self.by_name = {}
        self.atoms = set()
        self.n_states = 0

    def add(self, name, state):
        self.by_name.setdefault(name, []).append(state)
        self.n_states += 1


def _atom_sets(leaves):
    sets = set()
    for lv in leaves.values():
        for _, decisions in lv:
            for a, _ in decisions:
                if a[0] in ("task_exists", "item_exists"):
                    sets.add(a[1])
    return sets


WF_OTHER = "<any other workflow status>"


def state_in_row(m, st, r):
    """State st (of meaning m) can be the state in which an event is looked up in workflow
    row r.  Only meanings whose contextualiser tests the workflow status distinguish rows."""
    ws = st.get("wf_status")
    if ws is None or r is None:
        return True
    if ws == WF_OTHER:
        return r not in getattr(m, "wf_mentioned", frozenset())
    return ws == r


def _eval_atom(atom, state):
    k = atom[0]
    if k in ("task_exists", "item_exists"):
        return any(c <= atom[1] for c in state["present"])
    if k == "wf_status_eq":
        return state.get("wf_status") == atom[1]
    return state["bools"][atom]


def build_meaning(facts, which, spec_sets, bool_atoms, extra_dims=None, constrain=None):
    leaves = facts.leaves(which)
    sets = list(_atom_sets(leaves) | set(spec_sets))
    classes = status_classes(facts.ALL, sets)
    m = Meaning()
    m.classes = classes
    # every non-set atom that occurs becomes a boolean dimension
    bools = list(bool_atoms)
    for lv in leaves.values():
        for _, decisions in lv:
            for a, _ in decisions:
                m.atoms.add(a)
                if a[0] not in ("task_exists", "item_exists", "wf_status_eq") and a not in bools:
                    bools.append(a)
    m.bool_atoms = bools
    wf_rows = (extra_dims or {}).get("wf_status")
    if wf_rows is None:
        # a contextualiser that tests the workflow status makes the status a dimension of the
        # state: the statuses it mentions, plus one representative for all the others
        mentioned = sorted({a[1] for lv in leaves.values() for _, decisions in lv
                            for a, _ in decisions if a[0] == "wf_status_eq"})
        wf_rows = (mentioned + [WF_OTHER]) if mentioned else [None]
        m.wf_mentioned = frozenset(mentioned)
    # leaves produced by replay give the name for every complete presence vector: look it up
    fast = None
    rp = getattr(facts, "item_replay", None)
    if which == "task.item" and rp is not None and not bools:
        fast = {}
        for s, lv in leaves.items():
            if len(lv) == 1 and not lv[0][1]:
                for r in range(len(classes) + 1):
                    for combo in itertools.combinations(classes, r):
                        fast.setdefault((s, frozenset(combo)), set()).add(lv[0][0])
                continue
            for name, decisions in lv:
                key = frozenset(a[1] for a, v in decisions if v)
                fast.setdefault((s, key), set()).add(name)
        if any(c not in set(classes) for (_s, key) in fast for c in key):
            fast = None
    for s, lv in leaves.items():
        own = [c for c in classes if s in c]
        for r in range(len(classes) + 1):
            for combo in itertools.combinations(classes, r):
                present = frozenset(combo)
                for bvals in itertools.product((False, True), repeat=len(bools)):
                    for wfs in wf_rows:
                        state = {"s": s, "present": present, "bools": dict(zip(bools, bvals)),
                                 "wf_status": wfs, "own": own[0] if own else None}
                        if constrain is not None and not constrain(state):
                            continue
                        if fast is not None:
                            for name in fast.get((s, present), ()):
                                m.add(name, state)
                            continue
                        hit = None
                        for name, decisions in lv:
                            if all(_eval_atom(a, state) == v for a, v in decisions):
                                hit = name
                                break
                        if hit is None:
                            # the state leads to a raise (or nothing): not a generated name
                            continue
                        m.add(hit, state)
    return m


def present_any(state, sset):
    return any(c <= sset for c in state["present"]) if sset else False


def present_meets(state, sset):
    return any(c & sset for c in state["present"])


# ====================================================================== rule helpers
def _f(rule, table, row, event, msg, facts, line=None):
    cells = facts.wf_cells if table == "WORKFLOW_STATE_MACHINE_DATA" else facts.task_cells
    if line is None:
        cell = cells.get(row, {}).get(event)
        line = cell[0].lineno if cell else cells.get(row, {}).get("__line__")
    return Finding(rule, MACH, table, "row=%s event=%s" % (row, event), msg, line=line)


def eff(table, row, event):
    return table.get(row, {}).get(event, row)


# ====================================================================== T0
def rule_T0(facts):
    res = RuleResult("T0", "table well-formedness (declared events, valid targets, closure)")
    for tname, table, cells, dups, declared in (
        ("WORKFLOW_STATE_MACHINE_DATA", facts.wf, facts.wf_cells, facts.wf_dups,
         set(facts.WF_EVENTS) | set(facts.TASK_EVENTS)),
        ("TASK_STATE_MACHINE_DATA", facts.task, facts.task_cells, facts.task_dups,
         set(facts.ACTION_EVENTS) | set(facts.ENGINE_EVENTS) | set(facts.WF_EVENTS)),
    ):
        for row, ev, line in dups:
            res.violated((tname, row, ev, "dup"), Finding(
                "T0", MACH, tname, "duplicate key row=%s event=%s" % (row, ev),
                "duplicate key in dict display silently overwrites an earlier cell", line=line))
        for row, r in table.items():
            if row not in facts.ALL:
                res.violated((tname, row), _f("T0", tname, row, "-", "row is not a status", facts))
            for ev, tgt in r.items():
                inst = (tname, row, ev)
                if ev not in declared:
                    res.violated(inst, _f("T0", tname, row, ev,
                                          "cell key is not a declared event name", facts))
                elif tgt not in facts.ALL:
                    res.violated(inst, _f("T0", tname, row, ev,
                                          "cell target %r is not a status" % (tgt,), facts))
                elif tgt not in table:
                    res.violated(inst, _f(
                        "T0", tname, row, ev,
                        "target status %r is not a row of the table (closure): a record in that "
                        "status raises Invalid*StatusTransition on its next event and its "
                        "workflow-side event name is not handled" % (tgt,), facts))
                else:
                    res.holds(inst)
    return res


# ====================================================================== T1
def rule_T1(facts):
    res = RuleResult("T1", "every internally generated event name is an accepted event")
    lv = facts.leaves("wf.task")
    accepted = set(facts.TASK_EVENTS)
    names = {}
    for s, leaves in lv.items():
        for name, _ in leaves:
            names.setdefault(name, set()).add(s)
    res.facts["generable_task_events"] = sorted(names)
    for name in sorted(names):
        if name in accepted:
            res.holds(("wf.task", name))
        else:
            res.violated(("wf.task", name), Finding(
                "T1", MACH, "WorkflowStateMachine.add_context_to_task_event",
                "generated name %s" % name,
                "event name generated for task status %s is not in TASK_EXECUTION_EVENTS: "
                "process_task_event raises InvalidEvent after the task record was already "
                "updated, the workflow status is not" % sorted(names[name]),
                line=facts.contextualiser("WorkflowStateMachine",
                                          "add_context_to_task_event").node.lineno))
    # item events generated by the task-side contextualisers are only looked up (never
    # validated after suffixing); undeclared generated names are reported as dead forms.
    declared = set(facts.ACTION_EVENTS) | set(facts.ENGINE_EVENTS) | set(facts.WF_EVENTS)
    undeclared = set()
    for which in ("task.item", "task.request"):
        for s, leaves in facts.leaves(which).items():
            for name, _ in leaves:
                if name not in declared:
                    undeclared.add(name)
    res.facts["undeclared_item_forms"] = sorted(undeclared)
    # engine-internal workflow status requests: constant arguments of request_workflow_status
    wfreq = facts.leaves("wf.request")
    for s in _internal_request_statuses(facts.prog):
        for name, _ in wfreq.get(s, []):
            if name in set(facts.WF_EVENTS):
                res.holds(("wf.request", name))
            else:
                res.violated(("wf.request", name), Finding(
                    "T1", MACH, "WorkflowStateMachine.add_context_to_workflow_event",
                    "generated name %s" % name,
                    "the engine itself requests status %s but the generated event name is not in "
                    "WORKFLOW_EXECUTION_EVENTS" % s))
    return res


def _internal_request_statuses(prog):
    out = set()
    for f in prog.all_functions():
        if "tests" in f.module.name:
            continue
        for node in ast.walk(f.node):
            if isinstance(node, ast.Call) and isinstance(node.func, ast.Attribute) \
                    and node.func.attr == "request_workflow_status" and node.args:
                try:
                    out.add(prog.fold(node.args[0], f.module))
                except NotFoldable:
                    pass
    return sorted(out)


# ====================================================================== workflow typestate
def wf_task_meaning(facts):
    if hasattr(facts, "_wf_task_meaning"):
        return facts._wf_task_meaning
    spec_sets = [IN_FLIGHT, PAUSEDISH, PAUSE_EVIDENCE, CANCEL_EVIDENCE, facts.COMPLETED,
                 facts.ABENDED, frozenset(["retrying"]), frozenset(["succeeded"])]

    def constrain(st):
        # the event's own task carries the status s when the event is contextualised
        if st["own"] is None or st["own"] not in st["present"]:
            return False
        # a retrying task was re-staged ready before its event is processed
        if st["s"] == "retrying" and not st["bools"][("staged_ready",)]:
            return False
        return True

    m = build_meaning(facts, "wf.task", spec_sets,
                      [("staged_ready",), ("has_next",), ("has_barrier_next",)], constrain=constrain)
    facts._wf_task_meaning = m
    return m


def _inflight(st):
    return present_meets(st, IN_FLIGHT)


def _work_left(st):
    return st["bools"][("staged_ready",)] or st["bools"][("has_next",)]


def _unhandled_failure(facts, st):
    return (st["s"] in facts.ABENDED and not st["bools"][("has_next",)]
            and not st["bools"][("has_barrier_next",)])


def _clean_completion(facts, st):
    b = st["bools"]
    ok_status = st["s"] == "succeeded" or (
        st["s"] in facts.ABENDED and (b[("has_next",)] or b[("has_barrier_next",)]))
    return (ok_status and not _inflight(st) and not b[("staged_ready",)] and not b[("has_next",)]
            and not present_meets(st, PAUSE_EVIDENCE) and not present_meets(st, CANCEL_EVIDENCE))


def name_summaries(facts, row=None):
    """Per generated task-event name, what is true of the states that generate it.  With a
    row, only the states in which the workflow can be in that row (matters only when the
    contextualiser itself tests the workflow status)."""
    m = wf_task_meaning(facts)
    if not getattr(m, "wf_mentioned", None):
        row = None
    cache = facts.__dict__.setdefault("_wf_task_summ_rows", {})
    if row in cache:
        return cache[row]
    if row is None and hasattr(facts, "_wf_task_summ"):
        return facts._wf_task_summ
    out = {}
    for name, states in m.by_name.items():
        if row is not None:
            states = [s for s in states if state_in_row(m, s, row)]
            if not states:
                continue
        out[name] = {
            "some_inflight": any(_inflight(s) for s in states),
            "all_inflight": all(_inflight(s) for s in states),
            "some_dormant": any(not _inflight(s) for s in states),
            "some_dormant_nowork": any(not _inflight(s) and not _work_left(s) for s in states),
            "some_unhandled_failure": any(_unhandled_failure(facts, s) for s in states),
            "all_clean_completion": all(_clean_completion(facts, s) for s in states),
            "some_succ_like_not_completed": any(
                (s["s"] == "succeeded" or (s["s"] in facts.ABENDED and not _unhandled_failure(
                    facts, s))) and not _clean_completion(facts, s) for s in states),
            "statuses": sorted({s["s"] for s in states}),
            "n": len(states),
        }
    cache[row] = out
    if row is None:
        facts._wf_task_summ = out
    return out


def rule_T3a(facts, rows=None):
    res = RuleResult("T3a", "a resting workflow status is never entered (or kept by an explicit "
                            "cell) on an event generated while an action is in flight")
    summ = name_summaries(facts)
    accepted = set(facts.TASK_EVENTS)
    for r in facts.wf:
        if rows and r not in rows:
            continue
        summ = name_summaries(facts, r)
        for name, sm in sorted(summ.items()):
            if name not in accepted or not sm["some_inflight"]:
                continue
            explicit = name in facts.wf[r]
            if r in RESTING and not explicit:
                continue  # assumption A1: an in-flight event in a resting row is provider misuse
            if r in ("failed",):
                continue
            e = eff(facts.wf, r, name)
            inst = (r, name)
            if e in RESTING:
                res.violated(inst, _f(
                    "T3a", "WORKFLOW_STATE_MACHINE_DATA", r, name,
                    "event is generated in states where another action is still in flight "
                    "(task statuses %s) yet the workflow becomes %s" % (sm["statuses"], e), facts))
            else:
                res.holds(inst)
    return res


def rule_T3b(facts, rows=None):
    res = RuleResult("T3b", "in an active workflow row, an event generated with nothing in "
                            "flight leads to a resting/failed status or to a running status "
                            "with work on offer")
    summ = name_summaries(facts)
    accepted = set(facts.TASK_EVENTS)
    for r in WF_ACTIVE_ROWS:
        if rows and r not in rows:
            continue
        if r not in facts.wf:
            raise AnalysisError("workflow table has no row %s" % r)
        summ = name_summaries(facts, r)
        for name, sm in sorted(summ.items()):
            if name not in accepted or not sm["some_dormant"]:
                continue
            e = eff(facts.wf, r, name)
            inst = (r, name)
            if e in RESTING or e == "failed":
                res.holds(inst)
            elif e in facts.RUNNING_STATUSES and not sm["some_dormant_nowork"]:
                res.holds(inst)
            else:
                why = ("stays %s" % e) if name not in facts.wf[r] else ("becomes %s" % e)
                res.violated(inst, _f(
                    "T3b", "WORKFLOW_STATE_MACHINE_DATA", r, name,
                    "event is generated in states with no action in flight and no task on "
                    "offer (task status %s), yet the workflow %s: stuck" % (sm["statuses"], why),
                    facts))
    return res


def rule_T3c(facts, rows=None):
    res = RuleResult("T3c", "pausing/canceling are entered or kept only with an action in flight")
    summ = name_summaries(facts)
    accepted = set(facts.TASK_EVENTS)
    for r in facts.wf:
        if rows and r not in rows:
            continue
        summ = name_summaries(facts, r)
        for name, sm in sorted(summ.items()):
            if name not in accepted:
                continue
            explicit = name in facts.wf[r]
            if not explicit and r not in WF_ACTIVE_ROWS:
                continue
            e = eff(facts.wf, r, name)
            if e not in ("pausing", "canceling"):
                continue
            inst = (r, name)
            if sm["all_inflight"]:
                res.holds(inst)
            else:
                res.violated(inst, _f(
                    "T3c", "WORKFLOW_STATE_MACHINE_DATA", r, name,
                    "workflow is %s after an event that is also generated with nothing in flight"
                    % e, facts))
    return res


def rule_T3h(facts, rows=("pausing", "canceling")):
    res = RuleResult("T3h", "once pause or cancel is in progress no task event moves the "
                            "workflow back to a status in which tasks are offered")
    summ = name_summaries(facts)
    accepted = set(facts.TASK_EVENTS)
    for r in rows:
        if r not in facts.wf:
            raise AnalysisError("workflow table has no row %s" % r)
        summ = name_summaries(facts, r)
        for name in sorted(summ):
            if name not in accepted:
                continue
            e = eff(facts.wf, r, name)
            inst = (r, name)
            if e in facts.RUNNING_STATUSES:
                res.violated(inst, _f(
                    "T3h", "WORKFLOW_STATE_MACHINE_DATA", r, name,
                    "while %s, this task event puts the workflow back to %s: held-back work is "
                    "offered although the pause/cancel is still pending" % (r, e), facts))
            else:
                res.holds(inst)
    return res


def cmd_rows(facts):
    """Rows in which the event of an engine command (processed right after its parent's task
    event) can be looked up."""
    summ = name_summaries(facts)
    rows = set(WF_ACTIVE_ROWS)
    for r in WF_ACTIVE_ROWS:
        summ = name_summaries(facts, r)
        for name, sm in summ.items():
            if name not in set(facts.TASK_EVENTS):
                continue
            # parent completed with transitions still to process: succeeded-like, not a clean
            # completion (the command itself is staged)
            if sm["some_succ_like_not_completed"]:
                e = eff(facts.wf, r, name)
                if e not in TERMINAL:
                    rows.add(e)
    return rows


def rule_T3d(facts, rows=None):
    res = RuleResult("T3d", "an unhandled task failure or fail command is never lost: the "
                            "workflow fails (or keeps canceling)")
    summ = name_summaries(facts)
    accepted = set(facts.TASK_EVENTS)
    rcmd = cmd_rows(facts)
    res.facts["R_cmd"] = sorted(rcmd)
    for r in sorted(rcmd):
        if rows and r not in rows:
            continue
        summ = name_summaries(facts, r)
        for name, sm in sorted(summ.items()):
            if name not in accepted or not sm["some_unhandled_failure"]:
                continue
            e = eff(facts.wf, r, name)
            inst = (r, name)
            if e == "failed" or (r == "canceling" and e in ("canceling", "canceled")):
                res.holds(inst)
            else:
                res.violated(inst, _f(
                    "T3d", "WORKFLOW_STATE_MACHINE_DATA", r, name,
                    "a task failure with no matching transition (or a fail command) processed "
                    "while the workflow is %s leaves it %s; the failure is lost" % (r, e), facts))
    return res


def rule_T3e(facts):
    res = RuleResult("T3e", "succeeded is entered only by clean completion")
    summ = name_summaries(facts)
    reqm = wf_request_meaning(facts)
    for r, row in facts.wf.items():
        summ = name_summaries(facts, r)
        for name, tgt in row.items():
            if tgt != "succeeded":
                continue
            inst = (r, name)
            if name in summ:
                if summ[name]["all_clean_completion"]:
                    res.holds(inst)
                else:
                    res.violated(inst, _f(
                        "T3e", "WORKFLOW_STATE_MACHINE_DATA", r, name,
                        "workflow becomes succeeded on an event that is also generated while "
                        "tasks are in flight / staged / paused / canceled or a failure is "
                        "unhandled", facts))
            elif name in reqm:
                sts = [s for s in reqm[name] if s["wf_status"] == r]
                if all(s["s"] == "succeeded" for s in sts):
                    res.holds(inst, "explicit provider request (assumption A2)")
                elif all(_resume_complete(s) for s in sts):
                    res.holds(inst)
                else:
                    res.violated(inst, _f(
                        "T3e", "WORKFLOW_STATE_MACHINE_DATA", r, name,
                        "workflow becomes succeeded on a request that is also generated while "
                        "tasks are in flight, staged ready or paused", facts))
            elif name in set(facts.TASK_EVENTS) | set(facts.WF_EVENTS):
                res.holds(inst, "dead cell: name is never generated")
    return res


def _resume_complete(st):
    return (st["s"] in ("running", "resuming") and st["wf_status"] == "paused"
            and not _inflight(st) and not st["bools"][("staged_ready",)]
            and not present_meets(st, PAUSEDISH))


def rule_T3f(facts):
    res = RuleResult("T3f", "terminal rows are final; no offering status is a resting one")
    wf = facts.wf
    for r in ("failed", "canceled"):
        if wf.get(r) == {}:
            res.holds(("row", r))
        else:
            for ev in wf.get(r, {"<row missing>": None}):
                res.violated(("row", r, ev), _f(
                    "T3f", "WORKFLOW_STATE_MACHINE_DATA", r, ev,
                    "terminal row %s has an outgoing cell" % r, facts))
    srow = wf.get("succeeded")
    if srow is None:
        raise AnalysisError("workflow table has no row succeeded")
    for ev, tgt in srow.items():
        ok = tgt == "failed" and ev == (facts.templates["WorkflowExecutionEvent"] % "failed")
        if ok:
            res.holds(("row", "succeeded", ev))
        else:
            res.violated(("row", "succeeded", ev), _f(
                "T3f", "WORKFLOW_STATE_MACHINE_DATA", "succeeded", ev,
                "row succeeded may only go to failed on an explicit failed request", facts))
    bad = facts.RUNNING_STATUSES & frozenset(
        ["failed", "canceled", "succeeded", "paused", "pausing", "canceling"])
    if bad:
        res.violated(("RUNNING_STATUSES",), Finding(
            "T3f", "orquesta/statuses.py", "RUNNING_STATUSES", "members %s" % sorted(bad),
            "tasks are offered while the workflow is %s" % sorted(bad)))
    else:
        res.holds(("RUNNING_STATUSES",))
    # closure
    def reach(src):
        seen, todo = {src}, [src]
        while todo:
            x = todo.pop()
            for t in wf.get(x, {}).values():
                if t not in seen:
                    seen.add(t)
                    todo.append(t)
        return seen

    rc = reach("canceling")
    if rc <= {"canceling", "canceled", "failed"}:
        res.holds(("closure", "canceling"))
    else:
        res.violated(("closure", "canceling"), Finding(
            "T3f", MACH, "WORKFLOW_STATE_MACHINE_DATA", "closure from canceling",
            "from canceling the table reaches %s" % sorted(rc - {"canceling", "canceled", "failed"}),
            line=facts.wf_cells["canceling"]["__line__"]))
    for t in TERMINAL:
        extra = reach(t) - TERMINAL
        if extra:
            res.violated(("closure", t), Finding(
                "T3f", MACH, "WORKFLOW_STATE_MACHINE_DATA", "closure from %s" % t,
                "a terminal status reaches non-terminal %s" % sorted(extra)))
        else:
            res.holds(("closure", t))
    return res


# ---------------------------------------------------------------------- workflow requests
def wf_request_meaning(facts):
    if hasattr(facts, "_wf_req_meaning"):
        return facts._wf_req_meaning
    spec_sets = [IN_FLIGHT, PAUSEDISH]
    m = build_meaning(facts, "wf.request", spec_sets, [("staged_ready",)],
                      extra_dims={"wf_status": list(facts.wf.keys())})
    facts._wf_req_meaning = m.by_name
    facts._wf_req_meaning_obj = m
    return m.by_name


def rule_T3g(facts, rows=None):
    res = RuleResult("T3g", "status requests: pause/cancel map to pausing/canceling exactly "
                            "when an action is in flight, else to paused/canceled; failed is "
                            "accepted from every non-terminal status; resume completes only a "
                            "finished workflow")
    reqm = wf_request_meaning(facts)
    wf = facts.wf
    accepted = set(facts.WF_EVENTS)
    pause_req, cancel_req = ("pausing", "paused"), ("canceling", "canceled")
    live_rows = ("running", "pausing", "resuming")
    pre_rows = ("requested", "scheduled", "delayed")
    seen = set()
    for name, states in sorted(reqm.items()):
        for st in states:
            r, s = st["wf_status"], st["s"]
            if rows and r not in rows:
                continue
            key = (r, name, s, _inflight(st))
            if key in seen:
                continue
            seen.add(key)
            if name not in accepted:
                continue  # rejected by validation: provider input
            e = eff(wf, r, name)
            inst = (r, name, "inflight" if _inflight(st) else "dormant")
            want = None
            if s in pause_req + cancel_req:
                is_cancel = s in cancel_req
                if r in live_rows or (r == "canceling" and is_cancel):
                    want = ({"canceling"} if is_cancel else {"pausing"}) if _inflight(st) else (
                        {"canceled"} if is_cancel else {"paused"})
                elif r in pre_rows and not _inflight(st):
                    want = {"canceled"} if is_cancel else {"paused"}
                elif r == "paused" and not _inflight(st):
                    want = {"canceled"} if is_cancel else {"paused"}
                elif r in ("paused",) + pre_rows and _inflight(st):
                    # assumption A1: nothing can be in flight here; must at least not rest
                    if e in RESTING and name in wf[r]:
                        res.violated(inst, _f(
                            "T3g", "WORKFLOW_STATE_MACHINE_DATA", r, name,
                            "request with an action in flight leads to %s" % e, facts))
                    continue
            elif s == "failed" and r not in TERMINAL and r != facts.UNSET:
                want = {"failed"}
            elif s == "failed" and r == "succeeded":
                want = {"failed"}
            if want is None:
                continue
            if e in want:
                res.holds(inst)
            else:
                res.violated(inst, _f(
                    "T3g", "WORKFLOW_STATE_MACHINE_DATA", r, name,
                    "request %s while %s with %s leads to %s, expected %s"
                    % (s, r, "an action in flight" if _inflight(st) else "nothing in flight",
                       e, sorted(want)), facts))
    # resume of a paused workflow: completed only when finished; otherwise continues
    for name, states in sorted(reqm.items()):
        for st in states:
            if st["wf_status"] != "paused" or st["s"] not in ("running", "resuming"):
                continue
            if name not in accepted:
                continue
            e = eff(wf, "paused", name)
            inst = ("paused", name, "resume")
            if _resume_complete(st):
                ok = e in ("succeeded",)
            else:
                ok = e in ("running", "resuming")
            key = ("paused", name, ok)
            if key in seen:
                continue
            seen.add(key)
            if ok:
                res.holds(inst)
            else:
                res.violated(inst, _f(
                    "T3g", "WORKFLOW_STATE_MACHINE_DATA", "paused", name,
                    "resume request in a state that is %sfinished leads to %s"
                    % ("" if _resume_complete(st) else "not ", e), facts))
    return res


def rule_T3a_req(facts, rows=None):
    res = RuleResult("T3a-req", "a request generated with an action in flight never leads to "
                                "paused/canceled; one generated with nothing in flight never "
                                "leads to pausing/canceling")
    reqm = wf_request_meaning(facts)
    accepted = set(facts.WF_EVENTS)
    for name, states in sorted(reqm.items()):
        if name not in accepted:
            continue
        byrow = {}
        for st in states:
            byrow.setdefault(st["wf_status"], []).append(st)
        for r, sts in byrow.items():
            if rows and r not in rows:
                continue
            if name not in facts.wf.get(r, {}):
                continue
            e = facts.wf[r][name]
            inst = (r, name)
            if e in ("paused", "canceled") and any(_inflight(s) for s in sts):
                res.violated(inst, _f("T3a-req", "WORKFLOW_STATE_MACHINE_DATA", r, name,
                                      "request generated with an action in flight leads to %s" % e,
                                      facts))
            elif e in ("pausing", "canceling") and any(not _inflight(s) for s in sts):
                res.violated(inst, _f("T3a-req", "WORKFLOW_STATE_MACHINE_DATA", r, name,
                                      "request generated with nothing in flight leads to %s" % e,
                                      facts))
            else:
                res.holds(inst)
    return res


# ====================================================================== task typestate (T4)
def item_meaning(facts):
    if hasattr(facts, "_item_meaning"):
        return facts._item_meaning
    spec_sets = [IN_FLIGHT, PAUSEDISH, frozenset(["canceled"]), facts.ABENDED, facts.COMPLETED,
                 frozenset(["succeeded"]), frozenset([facts.UNSET])]
    m = build_meaning(facts, "task.item", spec_sets, [])
    facts._item_meaning = m
    return m


def item_summaries(facts):
    if hasattr(facts, "_item_summ"):
        return facts._item_summ
    m = item_meaning(facts)
    out = {}
    base_names = {facts.templates["ActionExecutionEvent"] % s: s for s in facts.ALL}
    for name, states in m.by_name.items():
        others = lambda st: st["present"]  # noqa: E731
        out[name] = {
            "plain": name in base_names,
            "statuses": sorted({s["s"] for s in states}),
            "some_item_inflight": any(present_meets(s, IN_FLIGHT) for s in states),
            "all_item_inflight": all(present_meets(s, IN_FLIGHT) for s in states),
            "some_dormant": any(not present_meets(s, IN_FLIGHT) for s in states),
            "all_others_succeeded_or_none": all(
                all(c <= frozenset(["succeeded"]) for c in others(s)) for s in states),
            "some_other_bad": any(
                present_meets(s, facts.ABENDED | frozenset(["canceled"])) and not present_meets(
                    s, IN_FLIGHT) for s in states),
            "some_other_notdone": any(
                any(not (c <= facts.COMPLETED) for c in others(s)) for s in states),
            "n": len(states),
        }
    facts._item_summ = out
    return out


def _tf(rule, row, event, msg, facts):
    return _f(rule, "TASK_STATE_MACHINE_DATA", row, event, msg, facts)


def rule_T4a(facts):
    res = RuleResult("T4a", "a with-items task never completes or rests (paused/pending) while "
                            "another item is in flight")
    summ = item_summaries(facts)
    rp = getattr(facts, "item_replay", None)
    if rp is not None:
        res.facts["item_contextualiser_replayed"] = {"reason": rp["reason"], "classes": rp["classes"]}
        f_ = facts.contextualiser("TaskStateMachine", "add_context_to_task_item_event")
        if rp["order_dependent"]:
            s_, present_, names_ = rp["order_dependent"][0]
            res.violated(("item order",), Finding(
                "T4a", f_.file, f_.qualname, "event name depends on the position of the items",
                "for an item reporting %s while the other items carry %s the generated event "
                "name is %s depending on the order of the items (%d such states): what the "
                "task does when an item ends must not depend on which item it is" % (
                    s_, present_ or "nothing", " or ".join(names_), len(rp["order_dependent"])),
                line=f_.node.lineno))
        else:
            res.holds(("item order",), "replayed in three orders per state")
    for r in facts.task:
        if r in facts.COMPLETED:
            continue
        for name, sm in sorted(summ.items()):
            if sm["plain"] or not sm["some_item_inflight"]:
                continue
            e = eff(facts.task, r, name)
            if e in facts.COMPLETED or (e in PAUSEDISH and r not in PAUSEDISH):
                res.violated((r, name), _tf(
                    "T4a", r, name, "item event generated while another item is in flight "
                    "%s the task as %s" % ("completes" if e in facts.COMPLETED else "rests", e),
                    facts))
            else:
                res.holds((r, name))
    return res


def rule_T4b(facts):
    res = RuleResult("T4b", "a task succeeds only by a succeeded action with every other item "
                            "succeeded, or by a continue/noop command")
    summ = item_summaries(facts)
    ok_cmds = {n for c, (n, s) in facts.engine_ops.items() if s == "succeeded"}
    plain_succ = facts.templates["ActionExecutionEvent"] % "succeeded"
    for r, row in facts.task.items():
        for name, tgt in row.items():
            if tgt != "succeeded":
                continue
            inst = (r, name)
            if name == plain_succ or name in ok_cmds:
                res.holds(inst)
            elif name in summ:
                sm = summ[name]
                if sm["statuses"] == ["succeeded"] and sm["all_others_succeeded_or_none"]:
                    res.holds(inst)
                else:
                    res.violated(inst, _tf(
                        "T4b", r, name, "task becomes succeeded on an item event generated for "
                        "item statuses %s / other items not all succeeded" % sm["statuses"], facts))
            elif name in set(facts.ACTION_EVENTS):
                res.holds(inst, "dead cell")
            else:
                res.violated(inst, _tf("T4b", r, name,
                                       "task becomes succeeded on an unexpected event", facts))
    return res


def rule_T4c(facts):
    res = RuleResult("T4c", "an item event generated with a failed/canceled item among dormant "
                            "items, or for an abended/canceled item with nothing in flight, "
                            "never yields succeeded or an in-flight task status")
    summ = item_summaries(facts)
    bad_own = facts.ABENDED | frozenset(["canceled"])
    m = item_meaning(facts)
    for r, row in facts.task.items():
        for name, tgt in row.items():
            if name not in summ or summ[name]["plain"]:
                continue
            states = m.by_name[name]
            flagged = any(
                (not present_meets(s, IN_FLIGHT)) and (s["s"] in bad_own or present_meets(
                    s, bad_own)) for s in states)
            if not flagged:
                continue
            inst = (r, name)
            if tgt == "succeeded" or tgt in IN_FLIGHT:
                res.violated(inst, _tf(
                    "T4c", r, name, "event generated with a failed/canceled item and nothing in "
                    "flight yields %s" % tgt, facts))
            else:
                res.holds(inst)
    return res


def rule_T4d(facts):
    res = RuleResult("T4d", "a pausing/canceling task never goes back to running on an item "
                            "event, and never rests while an item is in flight")
    summ = item_summaries(facts)
    for r in ("pausing", "canceling"):
        if r not in facts.task:
            raise AnalysisError("task table has no row %s" % r)
        for name, sm in sorted(summ.items()):
            if sm["plain"]:
                continue
            e = eff(facts.task, r, name)
            inst = (r, name)
            if e in ("running", "requested", "scheduled", "delayed", "resuming") and \
                    name in facts.task[r]:
                res.violated(inst, _tf("T4d", r, name,
                                       "a %s task goes back to %s on an item event" % (r, e), facts))
            elif sm["some_dormant"] and e == r and name in set(facts.ACTION_EVENTS) and \
                    sm["statuses"] and all(s in facts.COMPLETED | PAUSEDISH for s in sm["statuses"]):
                res.violated(inst, _tf(
                    "T4d", r, name, "item event generated with no other item in flight leaves "
                    "the task %s for ever" % r, facts))
            else:
                res.holds(inst)
    return res


def rule_T4e(facts):
    res = RuleResult("T4e", "completed task rows are closed except for the retry command; "
                            "retrying is entered only by it")
    retry_ev = facts.engine_ops.get("retry", (None, None))[0]
    for r, row in facts.task.items():
        for name, tgt in row.items():
            if tgt == "retrying":
                if name == retry_ev and r in facts.COMPLETED:
                    res.holds((r, name))
                else:
                    res.violated((r, name), _tf(
                        "T4e", r, name, "retrying entered from a non-completed status or by an "
                        "event other than the retry command", facts))
            elif r in facts.COMPLETED:
                res.violated((r, name), _tf(
                    "T4e", r, name, "a finished task record changes status to %s" % tgt, facts))
    for r in facts.COMPLETED:
        if r in facts.task:
            res.holds(("row", r))
    return res


def task_request_meaning(facts):
    if hasattr(facts, "_task_req_meaning"):
        return facts._task_req_meaning
    spec_sets = [IN_FLIGHT, facts.COMPLETED]
    m = build_meaning(facts, "task.request", spec_sets,
                      [("staged_exists",), ("staged_has_items",)])
    facts._task_req_meaning = m
    return m


def rule_T4f(facts):
    res = RuleResult("T4f", "a running with-items task reacts to every pause/cancel request form: "
                            "pausing/canceling with an item in flight, paused/canceled otherwise")
    m = task_request_meaning(facts)
    row = facts.task.get("running")
    if row is None:
        raise AnalysisError("task table has no row running")
    seen = set()
    for name, states in sorted(m.by_name.items()):
        for st in states:
            s = st["s"]
            if s not in ("pausing", "paused", "canceling", "canceled"):
                continue
            if not (st["bools"][("staged_exists",)] and st["bools"][("staged_has_items",)]):
                continue
            # a running with-items task has at least one item that is not completed
            if not any(not (c <= facts.COMPLETED) for c in st["present"]):
                continue
            infl = present_meets(st, IN_FLIGHT)
            key = (name, infl)
            if key in seen:
                continue
            seen.add(key)
            e = eff(facts.task, "running", name)
            is_cancel = s in ("canceling", "canceled")
            want = ("canceling" if is_cancel else "pausing") if infl else (
                "canceled" if is_cancel else "paused")
            inst = ("running", name, "inflight" if infl else "dormant")
            if e == want:
                res.holds(inst)
            else:
                res.violated(inst, _tf(
                    "T4f", "running", name, "request %s on a running with-items task with %s "
                    "leads to %s, expected %s" % (s, "an item in flight" if infl else
                                                  "no item in flight", e, want), facts))
    return res


def items_reachable_rows(facts):
    """Task statuses a with-items task can be in: closure from unset over item-event forms."""
    summ = item_summaries(facts)
    names = set(summ) | set(task_request_meaning(facts).by_name) | {
        n for n, s in facts.engine_ops.values()}
    seen, todo = {facts.UNSET}, [facts.UNSET]
    while todo:
        r = todo.pop()
        for n in names:
            t = facts.task.get(r, {}).get(n)
            if t is not None and t not in seen:
                seen.add(t)
                todo.append(t)
    return seen


def rule_T4g(facts):
    res = RuleResult("T4g", "with-items lifting: wherever a plain task reacts to an action "
                            "ending (completed or paused status), the with-items forms of that "
                            "event generated with no item in flight do not leave the task in "
                            "flight")
    summ = item_summaries(facts)
    m = item_meaning(facts)
    rows = items_reachable_rows(facts)
    res.facts["R_items"] = sorted(rows)
    tmpl = facts.templates["ActionExecutionEvent"]
    for r in sorted(rows):
        if r not in facts.task:
            continue
        for s in facts.ALL:
            base = tmpl % s
            tgt = facts.task[r].get(base)
            if tgt is None or not (tgt in facts.COMPLETED or tgt in PAUSEDISH):
                continue
            # lifted forms: names generated for item status s when every other item has
            # ended or is paused (nothing in flight, nothing left to offer)
            settled = facts.COMPLETED | PAUSEDISH
            forms = sorted(n for n, sts in m.by_name.items()
                           if n != base and any(
                               x["s"] == s and all(c <= settled for c in x["present"])
                               for x in sts))
            if not forms:
                continue
            bad = [n for n in forms if eff(facts.task, r, n) in IN_FLIGHT]
            inst = (r, base)
            if bad:
                res.violated(inst, Finding(
                    "T4g", MACH, "TASK_STATE_MACHINE_DATA", "row=%s base=%s" % (r, base),
                    "a plain task in status %s reacts to %s (-> %s) but %d with-items form(s) "
                    "generated with no item in flight (e.g. %s) leave the task %s: the task "
                    "stays in flight for ever" % (r, base, tgt, len(bad), bad[0], r),
                    line=facts.task_cells[r]["__line__"], extra={"forms": bad}))
            else:
                res.holds(inst)
    return res


# ====================================================================== T5
def rule_T5(facts):
    res = RuleResult("T5", "event dispatch is total over the event classes")
    prog = facts.prog
    evm = prog.module("events")
    base = evm.classes.get("ExecutionEvent")
    if base is None:
        raise AnalysisError("events.ExecutionEvent vanished")
    concrete = [c for c in prog.subclasses(base) if c is not base]
    for mach, must in (("TaskStateMachine", ("WorkflowExecutionEvent", "ActionExecutionEvent",
                                              "EngineOperationEvent")),
                       ("WorkflowStateMachine", ("WorkflowExecutionEvent", "TaskExecutionEvent"))):
        f = prog.function("machines.%s.process_event" % mach)
        handled = set()
        for node in ast.walk(f.node):
            if isinstance(node, ast.Call) and isinstance(node.func, ast.Name) and \
                    node.func.id == "isinstance" and len(node.args) == 2:
                a1 = node.args[1]
                for te in (a1.elts if isinstance(a1, ast.Tuple) else [a1]):
                    tgt = prog.resolve_name_expr(te, f.module)
                    if tgt is not None and hasattr(tgt, "name"):
                        handled.add(tgt.name)
        for c in concrete:
            names = {x.name for x in prog.mro(c)}
            relevant = names & set(must)
            if not relevant:
                continue
            inst = (mach, c.name)
            if names & handled:
                res.holds(inst)
            else:
                res.violated(inst, Finding(
                    "T5", MACH, "%s.process_event" % mach, "event class %s" % c.name,
                    "no isinstance branch handles this event class", line=f.node.lineno))
    eo = evm.classes.get("EngineOperationEvent")
    subs = {c.name for c in prog.subclasses(eo) if c is not eo} if eo else set()
    mapped = {ref.qualname.split(".")[-1] for ref in facts.ENGINE_EVENT_MAP.values()}
    if subs == mapped:
        res.holds(("ENGINE_EVENT_MAP",))
    else:
        res.violated(("ENGINE_EVENT_MAP",), Finding(
            "T5", "orquesta/events.py", "ENGINE_EVENT_MAP", "values vs EngineOperationEvent subclasses",
            "mismatch: %s" % sorted(subs ^ mapped)))
    return res

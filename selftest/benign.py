#!/venv/bin/python
"""Benign-refactor corpus: behaviour-preserving edits that every check must stay silent on.

Each variant is applied to a scratch worktree of /repo (outside /repo and /verif), the pinned
test suite is run on it, then every registered quick check is run with --repo <scratch>.
Not a manifest command; run by hand:  selftest/benign.py [name ...]
"""
import json
import os
import re
import subprocess
import sys

COND = "orquesta/conducting.py"
MACH = "orquesta/machines.py"
MODELS = "orquesta/specs/native/v1/models.py"
BASE = "orquesta/specs/base.py"


def sub(path, old, new, count=1):
    def ed(root):
        p = os.path.join(root, path)
        s = open(p).read()
        assert s.count(old) >= 1, "anchor not found in %s: %r" % (path, old[:60])
        s = s.replace(old, new) if count is None else s.replace(old, new, count)
        open(p, "w").write(s)
    return ed


def resub(path, pattern, repl, scope=None):
    def ed(root):
        p = os.path.join(root, path)
        s = open(p).read()
        if scope:
            i = s.index(scope[0])
            j = s.index(scope[1], i)
            body = re.sub(pattern, repl, s[i:j])
            assert body != s[i:j], "pattern matched nothing: %s" % pattern
            s = s[:i] + body + s[j:]
        else:
            s2 = re.sub(pattern, repl, s)
            assert s2 != s, "pattern matched nothing: %s" % pattern
            s = s2
        open(p, "w").write(s)
    return ed


def seq(*eds):
    def ed(root):
        for e in eds:
            e(root)
    return ed


UTS = ("    def update_task_state(self, task_id, route, event):", "    def _evaluate_route(")

VARIANTS = {
    "rename_locals_update_task_state": seq(
        resub(COND, r"\bnew_task_status\b", "status_after", UTS),
        resub(COND, r"\bold_task_status\b", "status_before", UTS),
        resub(COND, r"\bstaged_next_task\b", "nxt", UTS),
        resub(COND, r"\btask_state_entry\b", "record", UTS),
        resub(COND, r"\bout_ctx_idxs\b", "ctx_refs", UTS),
    ),
    "extract_retry_restage_helper": seq(
        sub(COND, '''            # Reset the staged task to be returned in get_next_tasks
            self.workflow_state.remove_staged_task(task_id, route)

            self.workflow_state.add_staged_task(
                task_id,
                route,
                ctxs=task_state_entry["ctxs"]["in"],
                prev=task_state_entry["prev"],
                retry=task_state_entry["retry"],
                ready=True,
            )
''', '''            # Reset the staged task to be returned in get_next_tasks
            self.workflow_state.remove_staged_task(task_id, route)
            self._restage_for_retry(task_id, route, task_state_entry)
'''),
        sub(COND, '''    def _evaluate_route(self, task_transition, prev_route):''', '''    def _restage_for_retry(self, task_id, route, task_state_entry):
        self.workflow_state.add_staged_task(
            task_id,
            route,
            ctxs=task_state_entry["ctxs"]["in"],
            prev=task_state_entry["prev"],
            retry=task_state_entry["retry"],
            ready=True,
        )

    def _evaluate_route(self, task_transition, prev_route):'''),
    ),
    "sorted_instead_of_list_of_set": sub(
        BASE, "rolling_ctx = list(set(rolling_ctx + updated_ctx))",
        "rolling_ctx = sorted(set(rolling_ctx + updated_ctx))"),
    "reorder_independent_statements": sub(
        COND, '''        fail_on_task_rendering = False
        staged_tasks = self.workflow_state.get_staged_tasks()
        remediation_tasks = []
        next_tasks = []
''', '''        next_tasks = []
        remediation_tasks = []
        staged_tasks = self.workflow_state.get_staged_tasks()
        fail_on_task_rendering = False
'''),
    "inline_has_staged_property": sub(
        MACH, '''        if workflow_state.has_staged_tasks or has_next_tasks:
            return task_event + "_incomplete"''', '''        if len(workflow_state.get_staged_tasks()) > 0 or has_next_tasks:
            return task_event + "_incomplete"'''),
    "move_table_row": seq(
        sub(MACH, '''    statuses.CANCELED: {},
    statuses.SUCCEEDED: {
        # Workflow status can transition from succeeded to failed in  cases
        # where there is exception while rendering workflow output.
        events.WORKFLOW_FAILED: statuses.FAILED
    },
    statuses.FAILED: {},
}
''', '''    statuses.FAILED: {},
    statuses.SUCCEEDED: {
        # Workflow status can transition from succeeded to failed in  cases
        # where there is exception while rendering workflow output.
        "workflow_failed": statuses.FAILED
    },
    statuses.CANCELED: {},
}
'''),
    ),
    "serialize_state_first": sub(
        COND, '''    def serialize(self):
        return {
            "spec": self.spec.serialize(),
            "graph": self.graph.serialize(),
            "input": self.get_workflow_input(),
            "context": self.get_workflow_parent_context(),
            "state": self.workflow_state.serialize(),
''', '''    def serialize(self):
        state = self.workflow_state.serialize()

        return {
            "spec": self.spec.serialize(),
            "graph": self.graph.serialize(),
            "input": self.get_workflow_input(),
            "context": self.get_workflow_parent_context(),
            "state": state,
'''),
    "copy_deepcopy_in_task_context": seq(
        sub(COND, "            ctx_delta = json_util.deepcopy(self.workflow_state.contexts[ctx_idx])",
            "            ctx_delta = copy.deepcopy(self.workflow_state.contexts[ctx_idx])"),
        sub(COND, "import logging\nimport queue\n", "import copy\nimport logging\nimport queue\n"),
    ),
    "retry_bound_negated_form": sub(
        COND, '''        if retry_tally >= retry_count:
            return False
''', '''        if not retry_tally < retry_count:
            return False
'''),
    "join_threshold_swapped_operands": sub(
        COND, "        if list(inbound_evaluation.values()).count(True) >= requirement:",
        "        satisfied_count = list(inbound_evaluation.values()).count(True)\n\n"
        "        if satisfied_count >= requirement:"),
    "rename_render_flag": resub(
        COND, r"\bfail_on_task_rendering\b", "rendering_failed",
        ("    def get_next_tasks(self):", "    def _get_task_state_idx(")),
    "swap_log_and_fail_in_handler": sub(
        COND, '''                except Exception as e:
                    self.log_error(e, task_id, route, task_transition_id)
                    self.request_workflow_status(statuses.FAILED)
                    continue
''', '''                except Exception as e:
                    self.request_workflow_status(statuses.FAILED)
                    self.log_error(e, task_id, route, task_transition_id)
                    continue
'''),
    "add_pure_query_method": sub(
        COND, '''    def get_workflow_parent_context(self):''', '''    def get_task_execution_count(self):
        return len(self.workflow_state.sequence)

    def get_workflow_parent_context(self):'''),
    "early_exit_form_of_gate": sub(
        COND, '''        if self.get_workflow_status() not in statuses.RUNNING_STATUSES and not remediation_tasks:
            return next_tasks
''', '''        offering = self.get_workflow_status() in statuses.RUNNING_STATUSES

        if not offering and not remediation_tasks:
            return next_tasks
'''),
    "explicit_none_check_on_staged": sub(
        COND, '''        if staged_task:
            staged_task.pop("completed", None)
''', '''        if staged_task is not None:
            staged_task.pop("completed", None)
'''),
    "total_sort_key_reordered": sub(
        "orquesta/expressions/base.py",
        "key=lambda var: (var[2], var[0], var[1])", "key=lambda var: (var[2], var[1], var[0])"),
    "evaluator_merge_handlers_keep_catch_all": sub(
        "orquesta/expressions/jinja.py", '''        except jinja2.exceptions.UndefinedError as e:
            msg = "Unable to evaluate expression '%s'. %s: %s"
            raise JinjaEvaluationException(msg % (expr, e.__class__.__name__, str(e)))
        except Exception as e:''', '''        except Exception as e:'''),
    "detector_loop_over_sorted_items": sub(
        MODELS, '''        # Identify use of reserved words in task names.
        for task_name, task_spec in self.items():''', '''        # Identify use of reserved words in task names.
        for task_name, task_spec in sorted(self.items()):'''),
}


def patch_variant(path):
    def ed(root):
        rc, out = sh("git apply %s" % path, cwd=root)
        assert rc == 0, "patch does not apply: %s" % out[:200]
    return ed


import glob
for _p in sorted(glob.glob(os.path.join(os.path.dirname(os.path.abspath(__file__)),
                                        "benign_patches", "*.diff"))):
    VARIANTS["patch:" + os.path.basename(_p)[:-5]] = patch_variant(_p)



RUN_ID = os.getpid()


def make_snapshot():
    """Frozen copy of the checker, so that editing /verif/sa while a long run is in progress
    does not mix versions.  Removed by the caller."""
    import shutil
    import tempfile
    d = tempfile.mkdtemp(prefix="sa_snap_")
    shutil.copytree("/verif/sa", os.path.join(d, "sa"), ignore=shutil.ignore_patterns("__pycache__"))
    for fn in ("known_findings.json", "reviewed_derefs.json", "MANIFEST.json", "properties.jsonl"):
        shutil.copy("/verif/" + fn, os.path.join(d, fn))
    return d


def sh(cmd, cwd=None, env=None, timeout=900):
    p = subprocess.run(cmd, shell=True, cwd=cwd, env=env, capture_output=True, text=True,
                       timeout=timeout)
    return p.returncode, p.stdout + p.stderr


def run_variant(args):
    i, name = args
    wt = "/tmp/benignwt_%d_%d" % (RUN_ID, i)
    props = [c["property_id"] for c in json.load(open("/verif/MANIFEST.json"))["checks"]]
    env = dict(os.environ, SA_EVIDENCE_DIR="/tmp/benign_ev_%d_%d" % (RUN_ID, i))
    if not os.path.isdir(wt):
        rc, out = sh("git -C /repo worktree add -q --detach %s HEAD" % wt)
        assert rc == 0, out
    sh("git checkout -q --detach $(git -C /repo rev-parse HEAD); git checkout -- .; git clean -fdq", cwd=wt)
    try:
        VARIANTS[name](wt)
    except AssertionError as e:
        return name, "EDIT FAILED: %s" % e, ["edit failed"]
    rc, out = sh("/venv/bin/python -m pytest -q -p no:cacheprovider -n 4 2>&1 | tail -1", cwd=wt)
    tests = out.strip()
    alarms = []
    for pid in props:
        rc, out = sh("/venv/bin/python -m sa.check %s --repo %s" % (pid, wt), cwd=os.environ.get("SA_SNAP", "/verif"), env=env)
        if rc != 0:
            lines = [l for l in out.splitlines() if "rule=" in l or l.startswith("ANALYSIS-ERROR")]
            alarms.append("%s(exit %d): %s" % (pid, rc, (lines or ["?"])[0][:230]))
    if not (" passed" in tests and "failed" not in tests):
        alarms.append("TESTS: " + tests)
    return name, tests, alarms


def main():
    import concurrent.futures as cf
    names = sys.argv[1:] or list(VARIANTS)
    nw = min(8, len(names))
    bad = 0
    snap = make_snapshot()
    os.environ["SA_SNAP"] = snap
    # one worktree per worker slot; variants are distributed round-robin
    slots = [[] for _ in range(nw)]
    for j, n in enumerate(names):
        slots[j % nw].append(n)

    def worker(i):
        return [run_variant((i, n)) for n in slots[i]]

    with cf.ThreadPoolExecutor(nw) as ex:
        for res in ex.map(worker, range(nw)):
            for name, tests, alarms in res:
                print("%-40s tests: %-34s alarms: %d" % (name, tests[:34], len(alarms)))
                for a in alarms:
                    print("      " + a)
                if alarms:
                    bad += 1
    for i in range(nw):
        sh("git -C /repo worktree remove --force /tmp/benignwt_%d_%d" % (RUN_ID, i))
        sh("rm -rf /tmp/benign_ev_%d_%d" % (RUN_ID, i))
    sh("rm -rf %s" % snap)
    print("variants with alarms or failing tests:", bad, "of", len(names))
    return 1 if bad else 0


if __name__ == "__main__":
    sys.exit(main())

#!/venv/bin/python
"""Confirm one seeded change and keep it: tools/confirm_seed.py <PROP> <k> <src dir>

In a scratch worktree of /repo (outside /repo and /verif): apply, run the pinned test suite, run
the demo (must FAIL), revert, run the demo (must PASS).  A confirmed change is stored under
/verif/seeded/<PROP>-<k>/ (patch.diff, demo.py, meta.json); which checks report it is filled in
by tools/matrix.py.  The worktree is removed afterwards.
"""
import json
import os
import shutil
import subprocess
import sys

prop, k, src = sys.argv[1], sys.argv[2], sys.argv[3]
patch = os.path.join(src, "patch.diff")
demo = os.path.join(src, "demo.py")
WT = "/tmp/confirmwt_%s_%s" % (prop, k)


def sh(cmd, cwd=None, env=None, timeout=900):
    p = subprocess.run(cmd, shell=True, cwd=cwd, env=env, capture_output=True, text=True,
                       timeout=timeout)
    return p.returncode, (p.stdout + p.stderr)


rc, out = sh("git -C /repo worktree add -q --detach %s HEAD" % WT)
assert rc == 0, out
try:
    rc, out = sh("git apply --check %s" % patch, cwd=WT)
    meta = {"property": prop, "k": k, "patch_applies": rc == 0}
    if rc != 0:
        print(prop, k, "patch does not apply:", out[:300])
        sys.exit(2)
    sh("git apply %s" % patch, cwd=WT)
    env = dict(os.environ, PYTHONPATH=WT)
    rc, out = sh("/venv/bin/python -m pytest -q -p no:cacheprovider -n 6 2>&1 | tail -2", cwd=WT)
    meta["tests_with_change"] = out.strip().splitlines()[-1] if out.strip() else ""
    tests_ok = " passed" in meta["tests_with_change"] and "failed" not in meta["tests_with_change"]
    rc1, out1 = sh("/venv/bin/python %s" % demo, cwd=WT, env=env, timeout=300)
    meta["demo_with_change"] = {"exit": rc1, "tail": out1.strip().splitlines()[-3:]}
    sh("git checkout -- . && git clean -fdq", cwd=WT)
    rc0, out0 = sh("/venv/bin/python %s" % demo, cwd=WT, env=env, timeout=300)
    meta["demo_without_change"] = {"exit": rc0, "tail": out0.strip().splitlines()[-3:]}
    confirmed = tests_ok and rc1 != 0 and rc0 == 0
    meta["confirmed"] = confirmed
    print(prop, k, "confirmed" if confirmed else "NOT CONFIRMED", meta["tests_with_change"],
          "demo with:", rc1, "without:", rc0)
    if confirmed:
        dst = "/verif/seeded/%s-%s" % (prop, k)
        os.makedirs(dst, exist_ok=True)
        shutil.copy(patch, dst)
        shutil.copy(demo, dst)
        notes = os.path.join(src, "notes.md")
        meta["needs_to_manifest_and_notes"] = open(notes).read() if os.path.exists(notes) else ""
        meta["what_was_run"] = ("scratch worktree: git apply; /venv/bin/python -m pytest -q (pinned "
                                "suite); demo.py with and without the change; checks via "
                                "tools/matrix.py on a scratch worktree")
        json.dump(meta, open(os.path.join(dst, "meta.json"), "w"), indent=1)
finally:
    sh("git -C /repo worktree remove --force %s" % WT)

#!/venv/bin/python
"""Confirm a repaired twin of a seeded change and keep it as a behaviour-preserving /
property-preserving variant:  tools/confirm_twin.py <name e.g. C04-10> <dir with patch.diff notes.md>
In a scratch worktree: apply, run the pinned suite (must pass), run the seed's demo (must PASS).
Stored as selftest/benign_patches/DF-<name>.diff (+ .notes.md).  The worktree is removed."""
import os
import shutil
import subprocess
import sys

name, src = sys.argv[1], sys.argv[2]
patch = os.path.join(src, "patch.diff")
demo = "/verif/seeded/%s/demo.py" % name
WT = "/tmp/twinwt_%s" % name


def sh(cmd, cwd=None, env=None, timeout=900):
    p = subprocess.run(cmd, shell=True, cwd=cwd, env=env, capture_output=True, text=True,
                       timeout=timeout)
    return p.returncode, (p.stdout + p.stderr)


if not os.path.exists(patch):
    print(name, "no patch delivered")
    sys.exit(3)
rc, out = sh("git -C /repo worktree add -q --detach %s HEAD" % WT)
assert rc == 0, out
try:
    rc, out = sh("git apply %s" % patch, cwd=WT)
    if rc != 0:
        print(name, "patch does not apply:", out[:300])
        sys.exit(2)
    rc, out = sh("/venv/bin/python -m pytest -q -p no:cacheprovider -n 6 2>&1 | tail -2", cwd=WT)
    last = out.strip().splitlines()[-1] if out.strip() else ""
    tests_ok = " passed" in last and "failed" not in last
    rc1, out1 = sh("/venv/bin/python %s" % demo, cwd=WT, env=dict(os.environ, PYTHONPATH=WT),
                   timeout=300)
    ok = tests_ok and rc1 == 0
    print(name, "confirmed" if ok else "REJECTED", last, "demo:", rc1)
    if ok:
        dst = "/verif/selftest/benign_patches/DF-%s" % name
        shutil.copy(patch, dst + ".diff")
        notes = os.path.join(src, "notes.md")
        if os.path.exists(notes):
            shutil.copy(notes, dst + ".notes.md")
finally:
    sh("git -C /repo worktree remove --force %s" % WT)

#!/venv/bin/python
"""Evaluate one seeded change: tools/eval_seed.py <PROP> <k> <src dir with patch.diff demo.py notes.md>

1. in a scratch worktree of /repo (outside /repo and /verif): apply, run the pinned test suite,
   run the demo (must FAIL), revert, run the demo (must PASS);
2. apply to /repo, run every registered quick check, undo;
3. if confirmed, store it under /verif/seeded/<PROP>-<k>/ with meta.json.
"""
import json
import os
import shutil
import subprocess
import sys

prop, k, src = sys.argv[1], sys.argv[2], sys.argv[3]
patch = os.path.join(src, "patch.diff")
demo = os.path.join(src, "demo.py")
WT = "/tmp/evalwt"


def sh(cmd, cwd=None, env=None, timeout=600):
    p = subprocess.run(cmd, shell=True, cwd=cwd, env=env, capture_output=True, text=True,
                       timeout=timeout)
    return p.returncode, (p.stdout + p.stderr)


if not os.path.isdir(WT):
    rc, out = sh("git -C /repo worktree add -q --detach %s HEAD" % WT)
    assert rc == 0, out
sh("git checkout -q --detach $(git -C /repo rev-parse HEAD) && git checkout -- . && git clean -fdq", cwd=WT)
rc, out = sh("git apply --check %s" % patch, cwd=WT)
meta = {"property": prop, "k": k, "patch_applies": rc == 0}
if rc != 0:
    print("patch does not apply:", out[:300])
    sys.exit(2)
sh("git apply %s" % patch, cwd=WT)
env = dict(os.environ, PYTHONPATH=WT)
rc, out = sh("/venv/bin/python -m pytest -q -p no:cacheprovider -n 16 2>&1 | tail -2", cwd=WT)
meta["tests_with_change"] = out.strip().splitlines()[-1] if out.strip() else ""
tests_ok = " passed" in meta["tests_with_change"] and "failed" not in meta["tests_with_change"]
rc1, out1 = sh("/venv/bin/python %s" % demo, cwd=WT, env=env, timeout=300)
meta["demo_with_change"] = {"exit": rc1, "tail": out1.strip().splitlines()[-3:]}
sh("git checkout -- . && git clean -fdq", cwd=WT)
rc0, out0 = sh("/venv/bin/python %s" % demo, cwd=WT, env=env, timeout=300)
meta["demo_without_change"] = {"exit": rc0, "tail": out0.strip().splitlines()[-3:]}
confirmed = tests_ok and rc1 != 0 and rc0 == 0
meta["confirmed"] = confirmed
# checks on /repo
sh("git apply %s" % patch, cwd="/repo")
results = {}
try:
    man = json.load(open("/verif/MANIFEST.json"))
    for c in man["checks"]:
        pid = c["property_id"]
        rc, out = sh(c["quick_cmd"], cwd="/verif", timeout=300)
        viol = [l for l in out.splitlines() if l.startswith("VIOLATION") or l.startswith("ANALYSIS-ERROR")]
        diag = []
        lines = out.splitlines()
        for i, l in enumerate(lines):
            if l.startswith("VIOLATION") and i > 0:
                diag.append(lines[i - 1][:300] if not lines[i - 1].startswith("    chain") else lines[i - 2][:300])
        if rc != 0:
            results[pid] = {"exit": rc, "violations": len(viol), "diagnostics": diag[:4]}
finally:
    sh("git checkout -- .", cwd="/repo")
meta["checks_alarmed"] = results
meta["detected_by_target_property"] = prop in results and results[prop]["exit"] == 1
meta["detected_by_any"] = any(r["exit"] == 1 for r in results.values())
print(json.dumps(meta, indent=1))
if confirmed:
    dst = "/verif/seeded/%s-%s" % (prop, k)
    os.makedirs(dst, exist_ok=True)
    shutil.copy(patch, dst)
    shutil.copy(demo, dst)
    notes = os.path.join(src, "notes.md")
    needs = open(notes).read() if os.path.exists(notes) else ""
    meta["needs_to_manifest_and_notes"] = needs
    meta["what_was_run"] = ("scratch worktree: git apply; /venv/bin/python -m pytest -q -n 16 (pinned "
                            "suite); demo.py with and without the change; then git -C /repo apply, "
                            "every MANIFEST quick_cmd, git -C /repo checkout -- .")
    json.dump(meta, open(os.path.join(dst, "meta.json"), "w"), indent=1)

#!/venv/bin/python
"""Re-evaluate every kept seeded change against the current checks (in scratch worktrees, in
parallel) and write /verif/seeded/MATRIX.md + update each meta.json['checks_alarmed']."""
import concurrent.futures as cf
import glob
import json
import os
import subprocess
import sys

SEEDS = sorted(glob.glob("/verif/seeded/C*-*/"))
PROPS = [c["property_id"] for c in json.load(open("/verif/MANIFEST.json"))["checks"]]
NW = 8
import threading
_GIT_LOCK = threading.Lock()



def make_snapshot():
    """Frozen copy of the checker, so that editing /verif/sa while a long run is in progress
    does not mix versions.  Removed by the caller."""
    import shutil
    import tempfile
    d = tempfile.mkdtemp(prefix="sa_snap_")
    shutil.copytree("/verif/sa", os.path.join(d, "sa"), ignore=shutil.ignore_patterns("__pycache__"))
    for fn in ("known_findings.json", "reviewed_derefs.json", "MANIFEST.json", "properties.jsonl"):
        shutil.copy("/verif/" + fn, os.path.join(d, fn))
    return d


def sh(cmd, cwd=None, env=None):
    p = subprocess.run(cmd, shell=True, cwd=cwd, env=env, capture_output=True, text=True, timeout=900)
    return p.returncode, p.stdout + p.stderr


def work(args):
    i, seeds = args
    wt = "/tmp/mwt_%d_%d" % (os.getpid(), i)
    ev = "/tmp/mev_%d_%d" % (os.getpid(), i)
    if not os.path.isdir(wt):
        with _GIT_LOCK:
            rc, out = sh("git -C /repo worktree add -q --detach %s HEAD" % wt)
        assert rc == 0, out
    sh("git checkout -q --detach $(git -C /repo rev-parse HEAD); git checkout -- .; git clean -fdq", cwd=wt)
    out = {}
    env = dict(os.environ, SA_EVIDENCE_DIR=ev)
    for s in seeds:
        name = os.path.basename(s.rstrip("/"))
        rc, o = sh("git apply %s" % os.path.join(s, "patch.diff"), cwd=wt)
        if rc != 0:
            out[name] = {"error": "patch does not apply: " + o[:200]}
            continue
        res = {}
        for pid in PROPS:
            rc, o = sh("/venv/bin/python -m sa.check %s --repo %s" % (pid, wt), cwd=os.environ.get("SA_SNAP", "/verif"), env=env)
            if rc != 0:
                lines = o.splitlines()
                diag = [lines[j - 1][:260] for j, l in enumerate(lines)
                        if l.startswith("VIOLATION") and j > 0 and not lines[j - 1].startswith("    chain")]
                if rc == 2:
                    diag = [l[:260] for l in lines if l.startswith("ANALYSIS-ERROR")]
                res[pid] = {"exit": rc, "diagnostics": diag[:3],
                            "rules": sorted({d.split("rule=")[1].split()[0] for d in diag if "rule=" in d})}
        out[name] = res
        sh("git checkout -- .", cwd=wt)
    with _GIT_LOCK:
        sh("git -C /repo worktree remove --force %s" % wt)
    sh("rm -rf %s" % ev)
    return out


def main():
    only = [a for a in sys.argv[1:] if not a.startswith("-")]
    if only:
        # ad-hoc look at a few seeds: print, do not rewrite MATRIX.md / meta.json
        sel = [s for s in SEEDS if os.path.basename(s.rstrip("/")) in only]
        snap = make_snapshot()
        os.environ["SA_SNAP"] = snap
        nw = min(NW, len(sel)) or 1
        with cf.ThreadPoolExecutor(nw) as ex:
            for r in ex.map(work, [(i, sel[i::nw]) for i in range(nw)]):
                for name, res in sorted(r.items()):
                    print(name, "; ".join("%s[%s]" % (p, ",".join(v.get("rules", [])) or "exit%s" % v.get("exit"))
                                          for p, v in sorted(res.items()) if isinstance(v, dict) and "exit" in v) or "-")
        sh("rm -rf %s" % snap)
        return
    chunks = [(i, SEEDS[i::NW]) for i in range(NW)]
    results = {}
    snap = make_snapshot()
    os.environ["SA_SNAP"] = snap
    with cf.ThreadPoolExecutor(NW) as ex:
        for r in ex.map(work, chunks):
            results.update(r)
    sh("rm -rf %s" % snap)
    rows = []
    det_t = det_a = 0
    for s in SEEDS:
        name = os.path.basename(s.rstrip("/"))
        mp = os.path.join(s, "meta.json")
        meta = json.load(open(mp))
        res = results.get(name, {})
        meta["checks_alarmed"] = res
        prop = meta["property"]
        meta["detected_by_target_property"] = prop in res and res[prop].get("exit") == 1
        meta["detected_by_any"] = any(r.get("exit") == 1 for r in res.values() if isinstance(r, dict))
        json.dump(meta, open(mp, "w"), indent=1)
        det_t += meta["detected_by_target_property"]
        det_a += meta["detected_by_any"]
        alarms = "; ".join("%s[%s]" % (p, ",".join(r.get("rules", [])) or ("exit%s" % r.get("exit")))
                           for p, r in sorted(res.items()) if isinstance(r, dict) and "exit" in r)
        first = (meta.get("needs_to_manifest_and_notes") or "").strip().splitlines()
        rows.append("| %s | %s | %s | %s |" % (
            name, "yes" if meta["detected_by_target_property"] else "no",
            "yes" if meta["detected_by_any"] else "no", alarms or "-"))
    with open("/verif/seeded/MATRIX.md", "w") as fh:
        fh.write("# Seeded changes vs. checks\n\n%d seeded changes (each confirmed: pinned suite passes "
                 "with it, its demo fails with it and passes without it). Detected by the check of "
                 "the property it was written against: %d; detected by some check: %d.\n\n"
                 "| seed | by target property | by any check | alarmed checks [rules] |\n|---|---|---|---|\n"
                 % (len(SEEDS), det_t, det_a))
        fh.write("\n".join(rows) + "\n")
    print("seeds", len(SEEDS), "target", det_t, "any", det_a)


if __name__ == "__main__":
    main()

import sys, json
d = json.load(sys.stdin)
print('confirmed', d['confirmed'], '| tests:', d['tests_with_change'], '| demo', d['demo_with_change']['exit'],
      d['demo_without_change']['exit'], '| target:', d['detected_by_target_property'], 'any:', d['detected_by_any'])
for p, r in d['checks_alarmed'].items():
    print('   ', p, r['exit'], r['violations'], (r['diagnostics'] or [''])[0][:220])

#!/bin/bash
# usage: tools/try_patch.sh <patch.diff> [property ids...]  -- applies the patch to /repo, runs the
# quick checks, prints exit codes + violation lines, and always restores /repo.
set -u
patch="$1"; shift
props="${@:-$(/venv/bin/python -c "import json;print(' '.join(c['property_id'] for c in json.load(open('/verif/MANIFEST.json'))['checks']))")}"
cd /repo || exit 9
if ! git apply --check "$patch" 2>/dev/null; then echo "PATCH DOES NOT APPLY: $patch"; exit 9; fi
git apply "$patch"
cd /verif
for p in $props; do
  out=$(/venv/bin/python -m sa.check $p 2>&1); rc=$?
  echo "== $p exit=$rc $(echo "$out" | grep -c '^VIOLATION') violation(s)"
  echo "$out" | grep -B1 "^VIOLATION\|^ANALYSIS-ERROR" | grep -v "^--" | cut -c1-400
done
cd /repo && git checkout -- . && git status --short | head -3
